# sourced by every /verif script: offline Go toolchain
export PATH=/opt/veriftools/go1.26.8/bin:$PATH
export GOTOOLCHAIN=local GOFLAGS=-mod=mod GOPROXY=off GOSUMDB=off
export CARGO_NET_OFFLINE=true PIP_NO_INDEX=1
