#!/bin/sh
# Builds the verifier from files on disk only (offline).
set -e
cd "$(dirname "$0")"
. ./env.sh
mkdir -p bin
go build -o bin/govc ./cmd/govc
