package jsontext

// Demonstration of finding F3 (C16): for a mismatched ']' after a completed member of
// a nested object, the token path (ReadToken) reported the JSON Pointer of the
// grandparent instead of the object that directly contains the error, because
// wrapSyntacticError applied Parent() to a pointer that appendStackPointer(+1) had
// already shortened (Last.NeedObjectName()). The value path reports the object itself.
// Run (from the repository root):
//   cp /verif/findings/F3_demo_test.go jsontext/zz_f3_demo_test.go && go test -vet=off -count=1 -run TestF3Demo ./jsontext; rm jsontext/zz_f3_demo_test.go
// Before the fix: `[{"b":1]` token path "" (value path "/0"); `{"a":{"b":1]}` token path "" (value path "/a").

import (
	"errors"
	"strings"
	"testing"
)

func TestF3Demo(t *testing.T) {
	for _, tc := range []struct{ in, want string }{
		{`{"a":{"b":1]}`, "/a"},
		{`[{"b":1]`, "/0"},
		{`{"a":{"b":1,"c":2]}`, "/a"},
		{`[[{"b":1]]]`, "/0/0"},
		{`{"a":{"b":{}]`, "/a"},
		{`{"b":1]`, ""},
		{`{"a":[1}`, "/a"},
	} {
		d := NewDecoder(strings.NewReader(tc.in))
		var terr error
		for terr == nil {
			_, terr = d.ReadToken()
		}
		_, verr := NewDecoder(strings.NewReader(tc.in)).ReadValue()
		var ts, vs *SyntacticError
		if !errors.As(terr, &ts) || !errors.As(verr, &vs) {
			t.Fatalf("%s: not syntactic errors: %v / %v", tc.in, terr, verr)
		}
		if string(ts.JSONPointer) != tc.want || string(vs.JSONPointer) != tc.want {
			t.Errorf("%s: token path %q, value path %q, want %q (the container of the error)", tc.in, ts.JSONPointer, vs.JSONPointer, tc.want)
		}
	}
}
