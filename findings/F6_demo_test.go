package json_test

// Demonstration of finding F6 (C17): "the coder cannot be reset from within" a user
// method. The wrappers raised the WithinArshalCall flag before the user code and cleared
// it unconditionally afterwards; after a nested MarshalEncode of a value whose type also
// has MarshalJSONTo returned, the flag was down although the outer MarshalJSONTo was
// still running, and Encoder.Reset no longer panicked.
// Run (from the repository root):
//   cp /verif/findings/F6_demo_test.go zz_f6_demo_test.go && go test -vet=off -count=1 -run TestF6Demo .; rm zz_f6_demo_test.go

import (
	"bytes"
	"testing"

	json "github.com/go-json-experiment/json"
	"github.com/go-json-experiment/json/jsontext"
)

type f6Inner struct{}

func (f6Inner) MarshalJSONTo(enc *jsontext.Encoder) error {
	return enc.WriteToken(jsontext.String("inner"))
}

type f6Outer struct {
	reset func(enc *jsontext.Encoder) (panicked bool)
	got   *bool
}

func (o f6Outer) MarshalJSONTo(enc *jsontext.Encoder) error {
	// Reset before the nested call: must panic.
	before := o.reset(enc)
	if err := json.MarshalEncode(enc, f6Inner{}); err != nil {
		return err
	}
	// Reset after a nested marshal call returned: we are still inside MarshalJSONTo.
	*o.got = o.reset(enc)
	_ = before
	return nil
}

func TestF6Demo(t *testing.T) {
	var other bytes.Buffer
	reset := func(enc *jsontext.Encoder) (panicked bool) {
		defer func() {
			if recover() != nil {
				panicked = true
			}
		}()
		enc.Reset(&other)
		return false
	}
	var afterNested bool
	out, err := json.Marshal(f6Outer{reset: reset, got: &afterNested})
	t.Logf("out=%q err=%v other=%q", out, err, other.String())
	if !afterNested {
		t.Errorf("Encoder.Reset inside MarshalJSONTo did not panic after a nested MarshalEncode returned (the coder was reset from within)")
	}
}
