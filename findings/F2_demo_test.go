package json_test

// Demonstration of finding F2 (C20): marshaling a cyclic Go value must return an error
// instead of recursing without bound. Cycle detection was switched on by the depth of the
// token stack only; a pointer to a pointer or to an interface adds no JSON nesting, so
// `type P *P; p = &p; Marshal(p)` and `var x any; x = &x; Marshal(x)` died with
// "fatal error: stack overflow" (not recoverable) before the repair.
// Run (from the repository root):
//   cp /verif/findings/F2_demo_test.go zz_f2_demo_test.go && go test -vet=off -count=1 -run TestF2Demo .; rm zz_f2_demo_test.go

import (
	"strings"
	"testing"

	json "github.com/go-json-experiment/json"
)

type f2P *f2P

func TestF2Demo(t *testing.T) {
	var p f2P
	p = &p
	if _, err := json.Marshal(p); err == nil || !strings.Contains(err.Error(), "cycle") {
		t.Errorf("Marshal of a self-referential pointer: err = %v, want a cycle error", err)
	}
	var x any
	x = &x
	if _, err := json.Marshal(x); err == nil || !strings.Contains(err.Error(), "cycle") {
		t.Errorf("Marshal of an interface holding a pointer to itself: err = %v, want a cycle error", err)
	}
	// acyclic chains of pointers are unaffected
	a := 1
	b := &a
	c := &b
	d := &c
	if out, err := json.Marshal(d); err != nil || string(out) != "1" {
		t.Errorf("Marshal(***int) = %s, %v", out, err)
	}
	var y any = 5
	z := &y
	w := &z
	if out, err := json.Marshal(w); err != nil || string(out) != "5" {
		t.Errorf("Marshal(**any) = %s, %v", out, err)
	}
}
