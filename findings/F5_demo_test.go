package json_test

// Demonstration of finding F5 (C19): the struct unmarshaler sets the `string`/`format`
// tag flags in the options it was given - the Decoder's own option struct when
// UnmarshalDecode is called without options - for the duration of one member value. On
// the error exit for a member promoted through a nil embedded pointer to an unexported
// struct type it returned without restoring them, so after the failed call the
// Decoder's own options had changed: GetOption(dec.Options(), StringifyNumbers) turned
// (true, true) and later values on the same Decoder were decoded as if `string`-tagged
// (the number 7 rejected, the string "8" accepted as an int).
// Run (from the repository root):
//   cp /verif/findings/F5_demo_test.go zz_f5_demo_test.go && go test -vet=off -count=1 -run TestF5Demo .; rm zz_f5_demo_test.go

import (
	"strings"
	"testing"

	json "github.com/go-json-experiment/json"
	"github.com/go-json-experiment/json/jsontext"
)

type f5inner struct {
	N int `json:",string"`
}
type f5T struct {
	*f5inner
}

func TestF5Demo(t *testing.T) {
	dec := jsontext.NewDecoder(strings.NewReader(`{"N":"5"} 7`), jsontext.AllowDuplicateNames(true))
	if v, ok := json.GetOption(dec.Options(), json.StringifyNumbers); v || ok {
		t.Fatalf("before: GetOption(StringifyNumbers) = (%v, %v), want (false, false)", v, ok)
	}
	var x f5T
	if err := json.UnmarshalDecode(dec, &x); err == nil {
		t.Fatalf("UnmarshalDecode into a nil embedded pointer to an unexported struct: got nil error")
	}
	if v, ok := json.GetOption(dec.Options(), json.StringifyNumbers); v || ok {
		t.Errorf("after the failed call: GetOption(StringifyNumbers) = (%v, %v), want (false, false): the Decoder's own options changed", v, ok)
	}
	for {
		tok, err := dec.ReadToken()
		if err != nil {
			t.Fatalf("ReadToken: %v", err)
		}
		if tok.Kind() == '}' {
			break
		}
	}
	var n int
	if err := json.UnmarshalDecode(dec, &n); err != nil || n != 7 {
		t.Errorf("UnmarshalDecode(7) on the same Decoder = (%d, %v), want (7, nil)", n, err)
	}
}
