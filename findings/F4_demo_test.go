package jsontext

// Demonstration of finding F4 (C05/C16): consumeObject kept a slice of d.buf (the
// quoted member name) across calls that may refill and compact the buffer, so the
// JSON Pointer of a syntax error depended on where the reader's chunk boundary fell.
// Run (from the repository root):
//   cp /verif/findings/F4_demo_test.go jsontext/zz_f4_demo_test.go && go test -vet=off -count=1 -run TestF4Demo ./jsontext; rm jsontext/zz_f4_demo_test.go

import (
	"bytes"
	"errors"
	"io"
	"testing"
)

type f4Chunks struct {
	chunks [][]byte
}

func (r *f4Chunks) Read(p []byte) (int, error) {
	if len(r.chunks) == 0 {
		return 0, io.EOF
	}
	n := copy(p, r.chunks[0])
	if n < len(r.chunks[0]) {
		r.chunks[0] = r.chunks[0][n:]
	} else {
		r.chunks = r.chunks[1:]
	}
	return n, nil
}

func f4Pointer(t *testing.T, r io.Reader) Pointer {
	d := NewDecoder(r)
	if _, err := d.ReadToken(); err != nil { // '['
		t.Fatal(err)
	}
	_, err := d.ReadValue()
	var serr *SyntacticError
	if !errors.As(err, &serr) {
		t.Fatalf("got %v, want a SyntacticError", err)
	}
	return serr.JSONPointer
}

func TestF4Demo(t *testing.T) {
	in := []byte(`[{"name":[1,2,x]}]`)
	want := f4Pointer(t, bytes.NewBuffer(append([]byte(nil), in...)))
	for cut := 1; cut < len(in); cut++ {
		got := f4Pointer(t, &f4Chunks{chunks: [][]byte{append([]byte(nil), in[:cut]...), append([]byte(nil), in[cut:]...)}})
		if got != want {
			t.Errorf("cut at %d: pointer %q, want %q (as reported for the same input delivered at once)", cut, got, want)
		}
	}
}
