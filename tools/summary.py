#!/usr/bin/env python3
# tools/summary.py: one line per evidence file (what the last run of each check covered).
import json, glob, os
for f in sorted(glob.glob('/verif/evidence/C*.json')):
    e = json.load(open(f))
    c = e.get('coverage', {})
    fu = c.get('functions_under_contract', {})
    bounded = [k for k, v in fu.items() if str(v.get('mode', '')).startswith('bounded')]
    ex = c.get('bounded_contract_execution', {})
    print('%s tier=%s functions=%d (bounded-only %d) obligations=%s discharged=%s probes=%s solver_s=%s wall_s=%s violations=%s exec=%s assumptions=%d' % (
        e['property_id'], e.get('tier'), len(fu), len(bounded), c.get('obligations'), c.get('discharged'), c.get('vacuity_probes'),
        c.get('solver_time_s'), e.get('wall_s'), e.get('violations'), ex.get('total_executions'), len(e.get('assumptions', []))))
