#!/bin/sh
# tools/verify_seed2.sh <seed-id>...: confirms seeded changes against /repo's HEAD in a scratch
# worktree, from seeded/<id>/meta.json (demo_path, demo_cmd): the demo passes without the patch,
# fails with it, and the whole suite passes with it.
. /verif/env.sh
for id in "$@"; do
  d=/verif/seeded/$id
  wt=$(mktemp -d /var/tmp/seedwt.XXXXXX); rmdir "$wt"
  git -C /repo worktree add -q --detach "$wt" HEAD || { echo "$id: no worktree"; continue; }
  dpath=$(python3 -c "import json;print(json.load(open('$d/meta.json'))['demo_path'])")
  dcmd=$(python3 -c "import json;print(json.load(open('$d/meta.json'))['demo_cmd'])")
  mkdir -p "$(dirname "$wt/$dpath")"; cp "$d/demo_test.go" "$wt/$dpath"
  res="ok"
  ( cd "$wt" && timeout 300 sh -c "$dcmd" >/dev/null 2>&1 ) || res="FAIL(demo does not pass on clean tree)"
  if [ "$res" = ok ]; then
    git -C "$wt" apply "$d/patch.diff" || res="FAIL(patch does not apply)"
  fi
  if [ "$res" = ok ]; then
    ( cd "$wt" && timeout 300 sh -c "$dcmd" >/dev/null 2>&1 ) && res="FAIL(demo passes with the patch)"
  fi
  if [ "$res" = ok ]; then
    rm -f "$wt/$dpath"
    ( cd "$wt" && timeout 900 go test -vet=off -count=1 ./... >/dev/null 2>&1 ) || res="FAIL(suite fails with the patch)"
  fi
  git -C /repo worktree remove --force "$wt" >/dev/null 2>&1; rm -rf "$wt"
  echo "$id $res"
done
git -C /repo worktree prune
