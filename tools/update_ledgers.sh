#!/bin/sh
# tools/update_ledgers.sh [property ...]: regenerates the obligation ledgers from a
# scratch worktree of /repo's HEAD (so that /repo can be edited meanwhile).
# Ledgers must only be regenerated on the unchanged (unmutated) tree.
. /verif/env.sh
cd /verif
props="$*"; [ -n "$props" ] || props=$(python3 -c "import sys;sys.path.insert(0,'/verif/tools');import claims;print(' '.join(sorted(claims.CLAIMS)))")
wt=$(mktemp -d /var/tmp/ledgerwt.XXXXXX); rmdir "$wt"
git -C /repo worktree add -q --detach "$wt" HEAD || exit 2
sv=$(mktemp -d /var/tmp/ledgerverif.XXXXXX)
mkdir -p "$sv/ledger"; [ -f /verif/known_findings.jsonl ] && cp /verif/known_findings.jsonl "$sv/"
for p in $props; do
  ./bin/govc check -repo "$wt" -verif "$sv" -property $p -tier quick -update-ledger -par ${PAR:-5} 2>&1 | tail -3
  cp "$sv/ledger/$p.txt" /verif/ledger/$p.txt
done
git -C /repo worktree remove --force "$wt"; rm -rf "$wt" "$sv"; git -C /repo worktree prune
