#!/usr/bin/env python3
"""Prints the markdown table of seeded changes and which checks caught them
(from seeded/*/meta.json and seeded/*/detection.json)."""
import json, glob, os
rows = []
for d in sorted(glob.glob('/verif/seeded/*')):
    sid = os.path.basename(d)
    try:
        m = json.load(open(d + '/meta.json'))
    except Exception:
        continue
    det = {}
    try:
        det = json.load(open(d + '/detection.json'))
    except Exception:
        pass
    caught = det.get('detected_by', [])
    checks = det.get('checks', {})
    ran = [p for p, x in checks.items() if not x.get('not_claimed')]
    files = ', '.join(m.get('files_changed') or [])
    summ = (m.get('summary') or '').split('. ')[0][:150].replace('|', '/')
    status = ('caught by ' + ', '.join(caught)) if caught else ('missed (ran ' + ', '.join(ran) + ')' if ran else 'not run')
    rows.append((sid, m.get('property'), files, summ, status))
print('| seed | property | file(s) | change | result |')
print('|---|---|---|---|---|')
for r in rows:
    print('| %s | %s | %s | %s | %s |' % r)
n = len(rows); c = sum(1 for r in rows if r[4].startswith('caught'))
print('\n%d of %d seeded changes are caught by at least one check.' % (c, n))
