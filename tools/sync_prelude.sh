#!/bin/sh
# Regenerates zz_verif_prelude.go in every /repo package that has contract files.
for d in $(cd /repo && ls -d internal/jsonwire internal/jsonflags internal/jsonopts jsontext . 2>/dev/null); do
  ls /repo/$d/zz_verif_*.go >/dev/null 2>&1 || continue
  pkg=$(grep -h '^package ' /repo/$d/zz_verif_*.go | grep -v prelude | head -1 | awk '{print $2}')
  [ -n "$pkg" ] || pkg=$(grep -h '^package ' /repo/$d/zz_verif_prelude.go | head -1 | awk '{print $2}')
  sed "s/PKGNAME/$pkg/" /verif/contracts/prelude.go.tmpl > /repo/$d/zz_verif_prelude.go
  echo "$d -> package $pkg"
done
