# What is claimed per property (kept next to mkmanifest.py).
# "text": what the check proves; "note": what it does not decide. Both are copied
# into MANIFEST.json. Keep them in step with the contracts tagged `property Cxx`
# in /repo's zz_verif_*.go files (the evidence file lists the functions and modes
# actually verified on each run).
CLAIMS = {
    "C01": {
        "text": "Proof, for all byte strings and unbounded length, that every lexical recogniser of the decoder equals an independent specification: ConsumeWhitespace, ConsumeNull/False/True/Literal, ConsumeSimpleString, ConsumeStringResumable/ConsumeString (against the string-unit scanner spec strScanFrom: escapes, UTF-8 well-formedness per Unicode Table 3-7, surrogate pairing, which offset and error class is reported), ConsumeSimpleNumber, ConsumeNumberResumable/ConsumeNumber (against the RFC 8259 section 6 automaton numStep: maximal munch, accept iff accepting state, EOF iff live non-accepting), parseHexUint16, hasEscapedUTF16Prefix; and that the push-down automaton stateMachine (appendLiteral/String/Number, push/pop Object/Array) accepts exactly the legal next token kinds, enforces name-must-be-string, matching delimiters and the 10000 depth limit exactly, and leaves its state untouched on error. Loops are cut by inductive invariants; obligations are discharged by z3/cvc5.",
        "note": "Decided here: the lexical layer and the token-kind automaton, which every entry point (IsValid, ReadToken, ReadValue) is built from. Not decided by proof: the composition in decoderState.ReadToken/ReadValue/consumeValue/consumeObject/consumeArray (thin safety/depth contracts only where listed in the evidence), objectNamespace.insert (duplicate names; map-based), the stream-concatenation clause, and json.Unmarshal into any.",
        "ref": "DESIGN.md §3 C01",
    },
    "C04": {
        "text": "Proof of the integer leaf codecs the round trip rests on: jsonwire.ParseUint is exact for every digit string (value, overflow exactly at 2^64, syntax); negateSecNano negates sec+nsec/1e9 exactly with nanoseconds kept in [0,1e9); mayAppendDurationSign/mayApplyDurationSign yield |d| and +-n in two's complement including MinInt64; appendTimeUnix computes its scaled integer part sec*pow10 + nsec/(1e9/pow10) without wrap-around in the branch that multiplies, for every representable time and each of the four units; appendFracBase10/appendPaddedBase10 only append; consumeSign, bytesCutByte, parseDec2 equal their specifications; uintSet (field ids of wide structs) is an exact set: insert reports first insertion and changes no other member across growth.",
        "note": "Assumed: strconv.AppendUint, bytes.TrimRight/IndexByte, time.Time accessors (library contracts listed in the evidence). Not decided by proof: the text-level inverse parse(append(x)) = x for durations and times (parsePaddedBase10/parseDurationBase10/parseTimeUnix functional contracts), float and base64 codecs, and composition over structs/maps/slices/pointers and option symmetry (reflection).",
        "ref": "DESIGN.md §3 C04",
    },
    "C05": {
        "text": "Proof that the resumable scanners are chunking-independent: ConsumeStringResumable called with any resumeOffset produced by an earlier truncated call returns what a fresh scan of the whole buffer returns (same end, same error class, same flags monotonicity), every io.ErrUnexpectedEOF return yields a resume offset at a unit boundary, ConsumeNumberResumable's (resumeOffset, state) pair denotes the automaton state reached by a fresh scan, and hasEscapedUTF16Prefix accepts exactly the prefixes of \\uXXXX (low-surrogate-restricted when asked). Plus, where listed in the evidence, the decoder's buffer algebra (decodeBuffer offsets, fetch, consume* re-anchoring).",
        "note": "Decided here: the places where a token split across reads is re-assembled (surrogate pairs, exponent markers, truncated escapes). Not decided by proof: interleavings of ReadToken/ReadValue/PeekKind with the peek cache, transient reader faults, the bytes.Buffer specialisation, UnmarshalRead/UnmarshalDecode equivalence (arshal layer).",
        "ref": "DESIGN.md §3 C05",
    },
    "C06": {
        "text": "Proof that the encoder's grammar automaton rejects exactly the illegal calls and that a rejected call has no effect on it: for every stateMachine operation, error iff the token kind is not legal in the current state (name position, missing value, mismatched or virtual-top pop, invalid namespace, depth 10000 exceeded), error implies Stack and Last unchanged, success implies exactly one automaton step with all other stack entries unchanged; stateEntry predicates equal their bit-level view; needDelim emits ':' / ',' / nothing exactly per position.",
        "note": "Decided here: the state machine every Encoder.WriteToken/WriteValue call consults first, and the delimiter choice. Not decided by proof unless listed in the evidence: the commit protocol of encoderState.WriteToken/AppendRaw/WriteValue around it (buffer truncation on error), reformatValue/Object/Array, objectNamespace.insert.",
        "ref": "DESIGN.md §3 C06",
    },
    "C07": {
        "text": "Proof of the flush conservation law on the real encoderState.Flush, for every buffer content, every short-write size 0 <= n <= len(Buf) and every error outcome of the writer: the bytes accepted by the writer followed by the bytes left in Buf equal the old Buf followed by the optional top-level newline (count: baseOffset' + len(Buf') = baseOffset + len(Buf) + nl; content: Buf'[k] is the old byte at k+n, or the newline), the offset advances by exactly n, a nil result leaves Buf empty, a skipped flush (no writer, or avoidFlush) changes nothing, and the name stack holds no reference into the buffer afterwards (copyQuotedBuffer). avoidFlush equals its specification (never flush while the innermost container could still become empty or its last member could still be retracted: count 0, value pending, or buffer ending in ll / \"\" / {} / [] at a name position); NeedFlush equals its threshold rule; TrimSuffixWhitespace/Byte/String and HasSuffixByte remove exactly the stated suffix.",
        "note": "Assumed: the io.Writer interface contract (0 <= n <= len(p), short write implies error, p not modified) and the bytes.Buffer methods used by the specialised path. Not decided by proof: UnwriteEmptyObjectMember/UnwriteOnlyObjectMemberName and the global lemma that no flush happens between a member name and the end of a value that turns out empty (struct arshaler, reflection), MarshalWrite's prefix clause, pooled encoder reuse (pools.go).",
        "ref": "DESIGN.md §3 C07",
    },
    "C08": {
        "text": "Proof of the detection primitives: ConsumeString/ConsumeStringResumable with validateUTF8 report an error iff the body contains an ill-formed UTF-8 sequence or an unpaired surrogate escape (utf8-iff obligations against the Unicode Table 3-7 spec); AppendQuote returns ErrInvalidUTF8 iff the input is ill-formed and AllowInvalidUTF8 is unset and otherwise replaces each ill-formed byte by exactly one U+FFFD; the namespace bits of stateEntry (DisableNamespace, invalidateNamespace, isActiveNamespace, isValidNamespace, Increment, decrement) do not interfere with each other, the type bit or the count; the state machine refuses every token once a namespace is invalid; and, where listed in the evidence, uintSet.insert (struct-field duplicate detection).",
        "note": "Not decided by proof: objectNamespace.insert/removeLast (hash-map based), that each target type re-implements duplicate detection after DisableNamespace (reflection), later-member-wins semantics under AllowDuplicateNames.",
        "ref": "DESIGN.md §3 C08",
    },
    "C10": {
        "text": "Proof that integer literals are parsed exactly: ParseUint returns the mathematical value of the digit string for every input length (unbounded), reports overflow precisely at 2^64 (saturating to MaxUint64) and rejects exactly the non-literals (empty, leading zero, non-digit); ConsumeNumber/ConsumeSimpleNumber/ConsumeNumberResumable delimit exactly the RFC 8259 number grammar. Where listed in the evidence: the integer codecs of arshal_time.go.",
        "note": "Not decided: float formatting/parsing (strconv assumed; floats are opaque to the solver), the int/uint arshaler closures' range checks (reflection closures), Token.Int/Uint float paths.",
        "ref": "DESIGN.md §3 C10",
    },
    "C11": {
        "text": "Proof that AppendQuote equals the escaping specification quoteSpec for every input and every combination of EscapeForHTML/EscapeForJS/AllowInvalidUTF8: output is dst ++ '\"' ++ spelling ++ '\"' where each ASCII byte that must be escaped becomes its shortest escape (two-character form where RFC 8259 has one, lower-case \\u00xx otherwise), other well-formed sequences are copied, U+2028/9 are escaped under EscapeForJS, '<' '>' '&' under EscapeForHTML, each ill-formed byte becomes one U+FFFD; dst's prefix and src are unchanged. NeedEscape(src) is exactly 'some unit needs escaping under some option or is ill-formed'. appendEscapedASCII/UTF16/Unicode emit the exact bytes. ConsumeStringResumable's canonical/verbatim flags are exact (used to decide when a string may be copied through unchanged).",
        "note": "Not decided by proof unless listed in the evidence: AppendUnquote and the round-trip lemma, ReformatString's three branches, that no other path writes strings to the output (arshal layer, pre-quoted struct names).",
        "ref": "DESIGN.md §3 C11",
    },
    "C12": {
        "text": "Proof of the reformatting leaves and of the safety layer of the recursive reformatter: the whitespace emitters emit only whitespace (AppendIndent: a newline, the prefix and n-1 indents, nothing for n = 0; appendWhitespace; both under the blank-indent invariant WithIndent enforces) and MayAppendDelim/NeedIndent emit exactly the delimiter and indentation the position calls for; ReformatNumber copies the literal verbatim unless canonicalization is requested, and then -0, floats (CanonicalizeRawFloats) and integers of 16 or more characters (CanonicalizeRawInts) are re-rendered by AppendFloat and never copied, while shorter integers (below 2^53, already canonical) are copied; InitializeMultiline/ChangedWhitespace equal their specifications; reformatValue/reformatObject/reformatArray and ReformatString only append to dst, never modify src, keep every index in bounds, enforce the nesting limit before emitting anything of the container, keep the namespace stack balanced on every exit, and pass isVerbatim only for names without escapes.",
        "note": "Assumed: strconv float parsing/formatting (floats are opaque), AppendFloat is a deterministic function of its numeric arguments. Not decided by proof: that the output's token sequence equals the input's (functional contract of reformatValue/Object/Array and of ReformatString's three branches), Value.format's no-rewrite clause, mustReorderObjectsFromDecoder.",
        "ref": "DESIGN.md §3 C12",
    },
    "C13": {
        "text": "Proof that CompareUTF16 is, for all well-formed UTF-8 inputs of any length, the lexicographic order of the UTF-16 code units of the two texts (RFC 8785 section 3.2.3): the result equals a specification written over code units (a scalar value below U+10000 is one unit, a supplementary one the pair hi/lo), which covers the ASCII fast path, the mixed BMP/supplementary case and the monotonicity of surrogate encoding; and that ReformatNumber under the canonicalization flags re-renders exactly -0, floats and integers of 16 or more characters through AppendFloat and copies shorter integers.",
        "note": "Assumed: utf8.DecodeRune, utf16.EncodeRune, cmp.Compare (library contracts validated against the real functions), strconv float formatting. Not decided by proof: the byte-wise tie-break on ill-formed input, objectMember.Compare, the in-place sort and move in mustReorderObjectsFromDecoder (library sort), Canonicalize as a whole.",
        "ref": "DESIGN.md §3 C13",
    },
    "C16": {
        "text": "Proof of the position algebra of the coders: decodeBuffer/encodeBuffer offsetAt and previousOffset* are baseOffset plus the buffer position; fetch keeps the absolute offsets of prevStart/prevEnd and of every retained byte (baseOffset' + prevStart' = baseOffset + prevStart, window preserved) and Flush advances baseOffset by exactly the number of bytes the writer accepted, so InputOffset/OutputOffset count the bytes consumed/produced on every path including short writes and failed reads; consumeWhitespace/Literal/String/Number return positions that denote the same absolute offset across any number of refills; the objectNameStack operations (push, pop, clearLast, ReplaceLastQuotedOffset, replaceLastUnquotedName, getUnquoted, copyQuotedBuffer) maintain the representation invariant (local offsets non-decreasing and before remote ones, remote offsets inside the buffer) and copyQuotedBuffer leaves no reference into the buffer, which fetch and Flush both call before the buffer contents move; appendEscapePointerName and AppendUnquote only append.",
        "note": "Not decided by proof: state.appendStackPointer's pointer text against a pointer specification, wrapSyntacticError's mismatched-delimiter rewrite (finding F3, DESIGN.md §5), Pointer.Parent/LastToken/Tokens/unescapePointerToken (strings.* library functions without a first-order contract), SemanticError positions (reflection callers).",
        "ref": "DESIGN.md §3 C16",
    },
    "C18": {
        "text": "Proof of history independence of the reset paths: for every prior state, state.reset, stateMachine.reset, objectNameStack.reset, objectNamespaceStack.reset and objectNamespace.reset leave the initial view (empty stacks, virtual top-level array, no names, nil name map), objectNamespaceStack.push yields an empty namespace whatever the reused slot held, pop/push leave the entries below untouched, and the capacity-retention thresholds are respected.",
        "note": "Decided here: the history clause only (a reused or pooled coder starts from a state that is a function of the arguments). Not decided: data-race freedom and concurrent isolation (sequential contracts are silent on schedules), the pools in jsontext/pools.go and arshal.go, SeenPointers emptiness at rest (reflection), slices returned to callers never being altered later.",
        "ref": "DESIGN.md §3 C18",
    },
    "C19": {
        "text": "Proof, for all 64-bit flag words, that Flags.Join/Set/Get/Has/Clear implement a last-wins partial map over option bit positions (Set = Join of the Bools' denotation, Join associative, per-position last-wins reading, well-formedness preserved, DefaultOptionsV2-style flags cancel every v1 default). Loop-free bit-vector obligations, all inputs.",
        "note": "Decided here: the boolean-option algebra every JoinOptions/GetOption call reduces to. Not decided: Struct.Join's non-boolean slots, GetOption's type switch, MarshalEncode's save/restore, and the non-interference clause (options documented as irrelevant never change a result), which lives in reflection code.",
        "ref": "DESIGN.md §3 C19, Appendix A.1",
    },
    "C20": {
        "text": "Proof of panic-freedom and of the resource limits for every function under contract (the union of all other properties' functions): each index and slice expression in bounds, no nil dereference, no division by zero, no signed overflow, every panic(\"BUG...\") unreachable, loop variants (termination of every lexical loop), and the nesting limit exact in pushObject/pushArray (10000 accepted, 10001 refused with errMaxDepth).",
        "note": "Not decided: totality of code outside the functions listed in the evidence (reflection-driven arshal layer), termination of marshal recursion over cyclic pointer chains (finding F2, see DESIGN.md §5), readers that return (0, nil) forever.",
        "ref": "DESIGN.md §3 C20",
    },
}

NOT_APPLICABLE = {
    "C09": "agreement of two whole reflection-driven programs (v1 vs the standard library's encoding/json) is not a function contract; the oracle is external code we do not verify",
    "C14": "every clause is a law relating two executions over reflect.Value mutations; the VC generator does not model reflect and no function within reach can state the law",
}
