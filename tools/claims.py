# What is claimed per property (kept next to mkmanifest.py).
CLAIMS = {
    "C19": {
        "text": "Proof, for all 64-bit flag words, that Flags.Join/Set/Get/Has/Clear implement a last-wins partial map over option bit positions (Set = Join of the Bools' denotation, Join associative, per-position last-wins reading, well-formedness preserved, DefaultOptionsV2-style flags cancel every v1 default). Loop-free bit-vector obligations, all inputs.",
        "note": "Decided here: the boolean-option algebra every JoinOptions/GetOption call reduces to. Not decided: Struct.Join's non-boolean slots, GetOption's type switch, MarshalEncode's save/restore, and the non-interference clause (options documented as irrelevant never change a result), which lives in reflection code.",
        "ref": "DESIGN.md §3 C19, Appendix A.1",
    },
}

NOT_APPLICABLE = {
    "C09": "agreement of two whole reflection-driven programs (v1 vs the standard library's encoding/json) is not a function contract; the oracle is external code we do not verify",
    "C14": "every clause is a law relating two executions over reflect.Value mutations; the VC generator does not model reflect and no function within reach can state the law",
}
