#!/usr/bin/env python3
"""Must-fail corpus for one property (thorough tier): applies each seeded change that
this property's check is recorded to catch (seeded/<id>/detection.json) to a scratch
copy of /repo's HEAD plus working-tree changes, runs the quick check there, and requires
a VIOLATION. Adds the result to evidence/<prop>.json under coverage.must_fail_corpus."""
import json, glob, os, subprocess, sys, tempfile, shutil
prop = sys.argv[1]
seeds = []
for d in sorted(glob.glob('/verif/seeded/*')):
    try:
        det = json.load(open(d + '/detection.json'))
    except Exception:
        continue
    if prop in det.get('detected_by', []):
        seeds.append(os.path.basename(d))
killed, missed, skipped = [], [], []
for sid in seeds:
    wt = tempfile.mkdtemp(prefix='selftest.', dir='/var/tmp'); os.rmdir(wt)
    sv = tempfile.mkdtemp(prefix='selftestverif.', dir='/var/tmp')
    try:
        # scratch copy of the working tree (tracked files as they are now)
        subprocess.run(['git', '-C', '/repo', 'worktree', 'add', '-q', '--detach', wt, 'HEAD'], check=True)
        diff = subprocess.run(['git', '-C', '/repo', 'diff', 'HEAD'], capture_output=True).stdout
        if diff.strip():
            subprocess.run(['git', '-C', wt, 'apply'], input=diff, check=False)
        if subprocess.run(['git', '-C', wt, 'apply', '/verif/seeded/%s/patch.diff' % sid]).returncode != 0:
            skipped.append(sid); continue
        os.symlink('/verif/ledger', sv + '/ledger')
        if os.path.exists('/verif/known_findings.jsonl'):
            shutil.copy('/verif/known_findings.jsonl', sv)
        shutil.copy('/verif/MANIFEST.json', sv)
        r = subprocess.run(['/verif/bin/govc', 'check', '-repo', wt, '-verif', sv, '-property', prop, '-tier', 'quick'], capture_output=True, text=True)
        (killed if (r.returncode == 1 and 'VIOLATION' in r.stdout) else missed).append(sid)
    finally:
        subprocess.run(['git', '-C', '/repo', 'worktree', 'remove', '--force', wt], capture_output=True)
        shutil.rmtree(wt, ignore_errors=True); shutil.rmtree(sv, ignore_errors=True)
subprocess.run(['git', '-C', '/repo', 'worktree', 'prune'])
ev = '/verif/evidence/%s.json' % prop
try:
    e = json.load(open(ev))
    e['coverage']['must_fail_corpus'] = {'seeded_changes_expected_to_be_caught': seeds, 'caught': killed, 'missed': missed, 'patch_did_not_apply': skipped}
    json.dump(e, open(ev, 'w'), indent=1)
except Exception as ex:
    print('selftest: cannot update evidence:', ex)
print('SELFTEST property=%s caught=%d/%d missed=%s not_applicable=%s' % (prop, len(killed), len(seeds), missed, skipped))
if missed:
    print('ENGINE-ERROR property=%s: seeded changes that used to be caught are no longer caught: %s' % (prop, ' '.join(missed)))
    sys.exit(2)
