#!/bin/sh
# tools/verify_seed.sh <out-dir> <seed-id>
# Confirms a candidate seeded change independently in a scratch worktree of the
# pinned base commit: demo passes without the patch, fails with it, and the whole
# suite passes with it. On success copies it to /verif/seeded/<seed-id>/.
set -u
. /verif/env.sh
src="$1"; id="$2"
base=937a0d3
wt=$(mktemp -d /var/tmp/seedwt.XXXXXX)
rmdir "$wt"
git -C /repo worktree add -q --detach "$wt" $base || exit 2
cleanup() { git -C /repo worktree remove --force "$wt" >/dev/null 2>&1; rm -rf "$wt"; }
trap cleanup EXIT
dpath=$(cat "$src/demo_path.txt" | tr -d '\n ')
dcmd=$(cat "$src/demo_cmd.txt" | head -1)
mkdir -p "$(dirname "$wt/$dpath")"
cp "$src/demo_test.go" "$wt/$dpath"
cd "$wt"
echo "== demo on clean tree"; if ! sh -c "$dcmd" >/tmp/seed.$$.log 2>&1; then echo "FAIL: demo does not pass on clean tree"; tail -5 /tmp/seed.$$.log; exit 1; fi
git apply "$src/patch.diff" || { echo "FAIL: patch does not apply"; exit 1; }
echo "== demo on patched tree"; if sh -c "$dcmd" >/tmp/seed.$$.log 2>&1; then echo "FAIL: demo passes with the patch"; exit 1; fi
tail -3 /tmp/seed.$$.log
rm -f "$wt/$dpath"
echo "== suite on patched tree"; if ! go test -vet=off -count=1 ./... >/tmp/seed.$$.log 2>&1; then echo "FAIL: suite fails with the patch"; grep -v '^ok' /tmp/seed.$$.log | tail -5; exit 1; fi
rm -f /tmp/seed.$$.log
dst=/verif/seeded/$id
mkdir -p "$dst"
cp "$src/patch.diff" "$dst/patch.diff"
cp "$src/demo_test.go" "$dst/demo_test.go"
python3 - "$src" "$dst" "$dpath" "$dcmd" <<'PY'
import json,sys
src,dst,dpath,dcmd=sys.argv[1:5]
try: m=json.load(open(src+'/meta.json'))
except Exception: m={}
out={"property":m.get("property"),"summary":m.get("summary"),"needs_to_manifest":m.get("needs_to_manifest"),
     "files_changed":m.get("files_changed"),"demo_path":dpath,"demo_cmd":dcmd,
     "confirmed":["scratch worktree of base commit 937a0d3: demo passes unpatched","patch applied: demo fails","patch applied: go test -vet=off -count=1 ./... all ok"],
     "author":"independent sub-agent given only the property text"}
json.dump(out,open(dst+'/meta.json','w'),indent=1)
PY
echo "OK: $id"
