#!/bin/sh
# tools/run_seeded.sh [seed-id ...]: applies each seeded change to /repo, runs the
# checks of every claimed property (or those given in CHECKS), undoes the change,
# and records which checks raised a VIOLATION in /verif/seeded/<id>/detection.json.
. /verif/env.sh
cd /verif
ids="$*"; [ -n "$ids" ] || ids=$(ls seeded)
props=${CHECKS:-$(python3 -c "import json;print(' '.join(c['property_id'] for c in json.load(open('/verif/MANIFEST.json'))['checks']))")}
if [ -n "$(git -C /repo status --porcelain)" ]; then echo "/repo is not clean"; exit 2; fi
for id in $ids; do
  git -C /repo apply "seeded/$id/patch.diff" || { echo "$id: patch does not apply"; continue; }
  res=""
  for p in $props; do
    out=$(./check $p quick 2>&1); rc=$?
    v=$(echo "$out" | grep -c '^VIOLATION')
    res="$res $p:$rc:$v"
    echo "$out" | grep '^VIOLATION' | sed "s/^/  [$id] /" | head -5
  done
  git -C /repo checkout -- . 
  echo "$id ->$res"
  python3 - "$id" "$res" <<'PY'
import json,sys
id,res=sys.argv[1],sys.argv[2].split()
d={}
for r in res:
    p,rc,v=r.split(':'); d[p]={"exit":int(rc),"violations":int(v)}
json.dump({"seed":id,"checks":d,"detected_by":[p for p,x in d.items() if x["exit"]==1 and x["violations"]>0]},open(f'/verif/seeded/{id}/detection.json','w'),indent=1)
PY
done
rm -rf /verif/replays
git -C /repo status --porcelain | head -3
