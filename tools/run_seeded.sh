#!/bin/sh
# tools/run_seeded.sh [seed-id ...]
# For each seeded change: makes a scratch worktree of /repo's HEAD (outside /repo and
# /verif), applies the change there, runs the quick checks of the properties in
# CHECKS (default: the property the seed targets) against that tree with a
# scratch output directory, records which checks raised a VIOLATION in
# /verif/seeded/<id>/detection.json, and removes the worktree.
# (Same as `git -C /repo apply; ./check; git -C /repo checkout -- .`, but leaves
# /repo untouched so that seeds can be run while contracts are being edited.)
. /verif/env.sh
cd /verif
[ -x bin/govc ] || ./setup.sh
ids="$*"; [ -n "$ids" ] || ids=$(ls seeded)
claimed=$(python3 -c "import json;print(' '.join(c['property_id'] for c in json.load(open('/verif/MANIFEST.json'))['checks']))")
for id in $ids; do
  wt=$(mktemp -d /var/tmp/seedrun.XXXXXX); rmdir "$wt"
  git -C /repo worktree add -q --detach "$wt" HEAD || { echo "$id: cannot create worktree"; continue; }
  sv=$(mktemp -d /var/tmp/seedverif.XXXXXX)
  ln -s /verif/ledger "$sv/ledger"; [ -f /verif/known_findings.jsonl ] && cp /verif/known_findings.jsonl "$sv/"
  if ! git -C "$wt" apply "/verif/seeded/$id/patch.diff"; then echo "$id: patch does not apply"; git -C /repo worktree remove --force "$wt"; rm -rf "$sv"; continue; fi
  target=$(python3 -c "import json;print(json.load(open('/verif/seeded/$id/meta.json'))['property'])")
  props=${CHECKS:-"$target"}
  res=""
  for p in $props; do
    case " $claimed " in *" $p "*) ;; *) res="$res $p:-1:0"; continue;; esac
    out=$(./bin/govc check -repo "$wt" -verif "$sv" -property $p -tier quick -par ${PAR:-6} 2>&1); rc=$?
    v=$(echo "$out" | grep -c '^VIOLATION')
    res="$res $p:$rc:$v"
    echo "$out" | grep '^VIOLATION' | sed "s/^/  [$id] /" | head -4
    for f in $(echo "$out" | grep '^VIOLATION' | sed 's/.*replay=\([^ ]*\).*/\1/' | head -3); do
      python3 -c "import json,sys;r=json.load(open('$f'));print('     ',r.get('obligation'),'|',(r.get('failing_input') or {}).get('inputs','no-input'))" 2>/dev/null
    done
  done
  git -C /repo worktree remove --force "$wt"; rm -rf "$wt" "$sv"
  echo "$id ->$res"
  python3 - "$id" "$res" <<'PY'
import json,sys
id,res=sys.argv[1],sys.argv[2].split()
d={}
for r in res:
    p,rc,v=r.split(':'); d[p]={"exit":int(rc),"violations":int(v)} if rc!='-1' else {"not_claimed":True}
json.dump({"seed":id,"checks":d,"detected_by":[p for p,x in d.items() if x.get("exit")==1 and x.get("violations",0)>0]},open(f'/verif/seeded/{id}/detection.json','w'),indent=1)
PY
done
git -C /repo worktree prune
