#!/usr/bin/env python3
"""Regenerates /verif/MANIFEST.json from the table below (kept here so the
manifest stays valid and consistent with what is actually built)."""
import json, subprocess

props = [json.loads(l) for l in open('/verif/properties.jsonl')]
ids = [p['id'] for p in props]

TRUST = ("Trusted: Go type checker + go/ssa (x/tools v0.50.0), the VC generator cmd/govc, z3 4.8.12 / z3 5.1.0 / cvc5 "
         "(an unsat from any one), slice sizes < 2^60, error sentinels and tables never reassigned (scanned), "
         "single-threaded execution, floats opaque. Assumed library contracts and every havocked call hit are listed in the evidence file on each run.")

# property -> (claim text, note about what is NOT decided, design ref)
claims = {}

def claim(pid, text, note, ref):
    claims[pid] = (text, note, ref)

NA = {}

def load_tables():
    import importlib.util, os
    spec = importlib.util.spec_from_file_location('claims', '/verif/tools/claims.py')
    m = importlib.util.module_from_spec(spec)
    spec.loader.exec_module(m)
    return m.CLAIMS, m.NOT_APPLICABLE

CLAIMS, NOT_APPLICABLE = load_tables()

hooks = subprocess.run(['git', '-C', '/repo', 'log', '--format=%H %s'], capture_output=True, text=True).stdout.splitlines()
hook_commits = [l.split()[0] for l in hooks if l.split(' ', 1)[1].startswith('verif:')]

checks = []
for pid in ids:
    if pid not in CLAIMS:
        continue
    c = CLAIMS[pid]
    checks.append({
        "property_id": pid,
        "quick_cmd": f"./check {pid} quick",
        "thorough_cmd": f"./check {pid} thorough",
        "evidence_file": f"/verif/evidence/{pid}.json",
        "replay_cmd_template": "./replay {path}",
        "engine": "govc",
        "level_claimed": {"category": "proof", "text": c["text"], "design_ref": c["ref"]},
        "level_note": c["note"] + " " + TRUST,
        "technique": "contract-based deductive verification: //@ contracts on the real functions, weakest-precondition-style VCs generated from go/ssa, discharged by z3/cvc5",
    })

na = []
for pid in ids:
    if pid in CLAIMS:
        continue
    na.append({"property_id": pid, "reason": NOT_APPLICABLE.get(pid, "contracts not completed (kernel tier not reached); not claimed on stand-ins")})

manifest = {
    "version": 1,
    "setup_cmd": "./setup.sh",
    "hooks": {
        "guard": "verif",
        "enable": "go build/test -tags verif: contract files zz_verif_*.go (//@ clauses + ghost spec/lemma functions) are compiled only under this tag; no existing file is edited",
        "baseline_off_cmd": "cd /repo && go test -vet=off -count=1 ./...",
        "source_commits": hook_commits,
        "add_only": True,
    },
    "engines": [{
        "name": "govc", "path": "cmd/govc", "serves_properties": sorted(CLAIMS.keys()),
        "kind_free_text": "deductive verifier for Go written for this task: loads /repo with -tags verif, builds go/ssa (NaiveForm), generates verification conditions per function under contract (loops cut by invariants, modular calls, heap as field arrays), races z3 5.1.0 / cvc5 / z3 4.8.12 per obligation",
    }],
    "checks": checks,
    "notes": "See DESIGN.md. Only obligations answered `unsat` count as discharged; bounded stand-ins and assumed library contracts are listed separately in each evidence file.",
    "not_applicable": na,
}
json.dump(manifest, open('/verif/MANIFEST.json', 'w'), indent=1)
print("checks:", [c['property_id'] for c in checks], "n/a:", len(na))
