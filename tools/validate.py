#!/usr/bin/env python3
# validates MANIFEST.json and every evidence file against the schemas (tooling venv has jsonschema)
import json,sys,glob,jsonschema
jsonschema.validate(json.load(open('/verif/MANIFEST.json')),json.load(open('/root/.vp/MANIFEST.schema.json')))
es=json.load(open('/root/.vp/EVIDENCE.schema.json'))
for f in sorted(glob.glob('/verif/evidence/*.json')):
    jsonschema.validate(json.load(open(f)),es)
print('valid')
