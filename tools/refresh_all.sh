#!/bin/sh
# tools/refresh_all.sh [property ...]: on the UNCHANGED /repo tree, regenerates each claimed
# property's obligation ledger and evidence file from /repo itself (quick tier).
. /verif/env.sh
cd /verif
props="$*"; [ -n "$props" ] || props=$(python3 -c "import sys;sys.path.insert(0,'/verif/tools');import claims;print(' '.join(sorted(claims.CLAIMS)))")
for p in $props; do
  ./bin/govc check -repo /repo -verif /verif -property $p -tier quick -update-ledger -par ${PAR:-5} 2>&1 | tail -2
done
