package main

import (
	"fmt"
	"os"

	"golang.org/x/tools/go/packages"
	"golang.org/x/tools/go/ssa"
	"golang.org/x/tools/go/ssa/ssautil"
)

func main() {
	cfg := &packages.Config{Mode: packages.LoadAllSyntax, Dir: "/repo", BuildFlags: []string{"-tags=verif"}}
	pkgs, err := packages.Load(cfg, os.Args[1])
	if err != nil {
		panic(err)
	}
	prog, spkgs := ssautil.AllPackages(pkgs, ssa.NaiveForm|ssa.GlobalDebug)
	prog.Build()
	for _, p := range spkgs {
		for _, name := range os.Args[2:] {
			if fn := p.Func(name); fn != nil {
				fn.WriteTo(os.Stdout)
				for _, af := range fn.AnonFuncs {
					af.WriteTo(os.Stdout)
				}
			} else {
				fmt.Println("not found", name)
			}
		}
	}
}
