package main

// Type-checking of contract clauses (go/types.CheckExpr at the function's
// scope) and translation of the resulting typed ASTs to SMT terms.

import (
	"fmt"
	"go/ast"
	"go/constant"
	"go/parser"
	"go/token"
	"go/types"
	"regexp"
	"strings"

	"golang.org/x/tools/go/packages"
	"golang.org/x/tools/go/ssa"
)

type checkedContract struct {
	con      *Contract
	info     *types.Info
	fn       *ssa.Function
	params   []string
	ptypes   []types.Type
	results  []string
	rtypes   []types.Type
	exprs    map[*Clause]ast.Expr
	modifies map[*Clause][]ast.Expr
	loops    []ast.Stmt // loop statements in source order
	sig      *types.Signature
}

func typeText(t types.Type, pkg *types.Package) string {
	return types.TypeString(t, func(p *types.Package) string {
		if p == pkg {
			return ""
		}
		return p.Name()
	})
}

// collectLoops returns for/range statements of a body in source order,
// not descending into function literals.
func collectLoops(body *ast.BlockStmt) []ast.Stmt {
	var out []ast.Stmt
	ast.Inspect(body, func(n ast.Node) bool {
		switch x := n.(type) {
		case *ast.FuncLit:
			return false
		case *ast.ForStmt:
			out = append(out, x)
		case *ast.RangeStmt:
			out = append(out, x)
		}
		return true
	})
	return out
}

// checkContract type-checks all clauses of a contract.
func (e *Engine) checkContract(con *Contract) (*checkedContract, error) {
	ci := &checkedContract{con: con, exprs: map[*Clause]ast.Expr{}, modifies: map[*Clause][]ast.Expr{},
		info: &types.Info{Types: map[ast.Expr]types.TypeAndValue{}, Uses: map[*ast.Ident]types.Object{}, Defs: map[*ast.Ident]types.Object{}, Selections: map[*ast.SelectorExpr]*types.Selection{}, Instances: map[*ast.Ident]types.Instance{}}}
	pkg := con.pkg
	var basePos token.Pos
	var body *ast.BlockStmt
	var extraParams []string // textual "name type" pairs for the wrapper
	switch con.kind {
	case "extern":
		// parse the signature text
		src := "func" + con.externSig
		ex, err := parser.ParseExprFrom(pkg.Fset, "extern:"+con.name, src, 0)
		if err != nil {
			return nil, fmt.Errorf("%s: bad extern signature: %v", con.pos, err)
		}
		ft := ex.(*ast.FuncType)
		// position: inside the verif file that declares it (for its imports)
		basePos = e.verifFilePos(con)
		tv, err := checkTypeExpr(pkg.Fset, pkg.Types, basePos, src)
		if err != nil {
			return nil, fmt.Errorf("%s: extern signature: %v", con.pos, err)
		}
		sig := tv.(*types.Signature)
		ci.sig = sig
		_ = ft
		if (strings.Contains(con.name, ".") && isInterfaceMethodName(con.name)) || strings.HasPrefix(con.name, "method:") {
			ci.params = append(ci.params, "recv")
			var rt types.Type = types.NewInterfaceType(nil, nil)
			rtext := "any"
			// a value receiver of a named type, `pkg.(T).M`: recv has that type when the
			// verif file can name it (its package is imported there)
			if m := valueRecvRE.FindStringSubmatch(con.name); m != nil {
				if t, err := checkTypeExpr(pkg.Fset, pkg.Types, basePos, m[1]+"."+m[2]); err == nil {
					rt, rtext = t, m[1]+"."+m[2]
				}
			}
			ci.ptypes = append(ci.ptypes, rt)
			extraParams = append(extraParams, "recv "+rtext)
		}
		for i := 0; i < sig.Params().Len(); i++ {
			p := sig.Params().At(i)
			ci.params = append(ci.params, p.Name())
			ci.ptypes = append(ci.ptypes, p.Type())
			extraParams = append(extraParams, p.Name()+" "+typeText(p.Type(), pkg.Types))
		}
		for i := 0; i < sig.Results().Len(); i++ {
			r := sig.Results().At(i)
			n := r.Name()
			if n == "" {
				n = fmt.Sprintf("result%d", i)
			}
			ci.results = append(ci.results, n)
			ci.rtypes = append(ci.rtypes, r.Type())
			extraParams = append(extraParams, n+" "+typeText(r.Type(), pkg.Types))
		}
		if sig.Results().Len() == 1 && sig.Results().At(0).Name() == "" {
			extraParams = append(extraParams, "result "+typeText(sig.Results().At(0).Type(), pkg.Types))
		}
	default:
		fn := e.funcs[con.pkg.Types.Name()+"."+con.name]
		if fn == nil {
			return nil, fmt.Errorf("%s: contract does not bind: no function %s in package %s", con.pos, con.name, pkg.Types.Name())
		}
		ci.fn = fn
		ci.sig = fn.Signature
		switch syn := fn.Syntax().(type) {
		case *ast.FuncDecl:
			body = syn.Body
		case *ast.FuncLit:
			body = syn.Body
		default:
			return nil, fmt.Errorf("%s: function %s has no syntax", con.pos, con.name)
		}
		basePos = body.Lbrace + 1
		ci.loops = collectLoops(body)
		for _, p := range fn.Params {
			ci.params = append(ci.params, p.Name())
			ci.ptypes = append(ci.ptypes, p.Type())
		}
		res := fn.Signature.Results()
		for i := 0; i < res.Len(); i++ {
			r := res.At(i)
			n := r.Name()
			if n == "" || n == "_" {
				n = fmt.Sprintf("result%d", i)
				extraParams = append(extraParams, n+" "+typeText(r.Type(), pkg.Types))
			}
			ci.results = append(ci.results, n)
			ci.rtypes = append(ci.rtypes, r.Type())
		}
		if res.Len() == 1 && (res.At(0).Name() == "" || res.At(0).Name() == "_") {
			extraParams = append(extraParams, "result "+typeText(res.At(0).Type(), pkg.Types))
		}
	}
	for _, cl := range con.clauses {
		pos := basePos
		if cl.kind == "invariant" || cl.kind == "decreases" || cl.kind == "hint" || cl.kind == "step" {
			if cl.loop < 0 || cl.loop >= len(ci.loops) {
				return nil, fmt.Errorf("%s: %s has %d loops, clause names loop %d", cl.pos, con.name, len(ci.loops), cl.loop)
			}
			switch l := ci.loops[cl.loop].(type) {
			case *ast.ForStmt:
				pos = l.Body.Lbrace + 1
			case *ast.RangeStmt:
				pos = l.Body.Lbrace + 1
			}
		}
		if cl.kind == "at" && strings.HasPrefix(cl.at, "call:") {
			cpos, err := findCallPos(body, ci.info, pkg, strings.TrimPrefix(cl.at, "call:"))
			if err != nil {
				return nil, fmt.Errorf("%s: %v", cl.pos, err)
			}
			cl.callPos = cpos
			pos = cpos
			cl.callExtra = callResultParams(body, pkg.TypesInfo, pkg.Types, cpos)
		} else if cl.kind == "at" && strings.HasPrefix(cl.at, "return#") {
			// checked at one return statement (the K-th in source order, nested function
			// literals not counted); the locals in scope there are visible
			k := -1
			fmt.Sscanf(strings.TrimPrefix(cl.at, "return#"), "%d", &k)
			var found []token.Pos
			ast.Inspect(body, func(n ast.Node) bool {
				switch r := n.(type) {
				case *ast.FuncLit:
					return false
				case *ast.ReturnStmt:
					found = append(found, r.Return)
				}
				return true
			})
			if k < 0 || k >= len(found) {
				return nil, fmt.Errorf("%s: %s has %d return statements, clause names return#%d", cl.pos, con.name, len(found), k)
			}
			cl.retPos = found[k]
			pos = found[k]
		} else if cl.kind == "at" && cl.at == "return" {
			// checked at every return site, before the postconditions; locals are visible
			pos = body.Rbrace
			last := body.List[len(body.List)-1]
			pos = last.Pos()
		} else if cl.kind == "at" {
			found := token.NoPos
			ast.Inspect(body, func(n ast.Node) bool {
				if ls, ok := n.(*ast.LabeledStmt); ok && ls.Label.Name == cl.at {
					found = ls.Stmt.Pos()
				}
				return true
			})
			if !found.IsValid() {
				return nil, fmt.Errorf("%s: %s has no label %s", cl.pos, con.name, cl.at)
			}
			pos = found
		}
		if cl.kind == "modifies" {
			for _, part := range splitTop(cl.text, ',') {
				part = strings.TrimSpace(part)
				if part == "everything" {
					ci.modifies[cl] = append(ci.modifies[cl], &ast.Ident{Name: "everything"})
					continue
				}
				ex, err := e.checkOne(pkg.Fset, pkg.Types, pos, extraParams, part, "", ci.info)
				if err != nil {
					return nil, fmt.Errorf("%s: modifies %q: %v", cl.pos, part, err)
				}
				if sel, ok := ast.Unparen(ex).(*ast.SelectorExpr); ok {
					ex = expandPromoted(ci.info, sel)
				}
				ci.modifies[cl] = append(ci.modifies[cl], ex)
			}
			continue
		}
		retType := "bool"
		if cl.kind == "decreases" {
			retType = "int"
		}
		if cl.kind == "hint" {
			retType = ""
		}
		xp := extraParams
		if len(cl.callExtra) > 0 {
			xp = append(append([]string{}, extraParams...), cl.callExtra...)
		}
		if cl.kind == "invariant" || cl.kind == "decreases" || cl.kind == "step" {
			if _, isRange := ci.loops[cl.loop].(*ast.RangeStmt); isRange {
				xp = append(append([]string{}, extraParams...), "rangeindex int")
			}
		}
		ex, err := e.checkOne(pkg.Fset, pkg.Types, pos, xp, rewriteImplies(cl.text), retType, ci.info)
		if err != nil {
			return nil, fmt.Errorf("%s: %s %q: %v", cl.pos, cl.kind, cl.text, err)
		}
		ci.exprs[cl] = ex
	}
	return ci, nil
}

// expandPromoted rewrites a selector that reaches a field through embedded
// structs (d.buf for d.decodeBuffer.buf) into the explicit chain, recording the
// types of the new nodes, so that frame clauses can name promoted fields.
func expandPromoted(info *types.Info, x *ast.SelectorExpr) ast.Expr {
	sel := info.Selections[x]
	if sel == nil || len(sel.Index()) <= 1 {
		return x
	}
	base := x.X
	t := info.TypeOf(base)
	idx := sel.Index()
	for _, i := range idx[:len(idx)-1] {
		if pt, ok := t.Underlying().(*types.Pointer); ok {
			t = pt.Elem()
		}
		f := t.Underlying().(*types.Struct).Field(i)
		ns := &ast.SelectorExpr{X: base, Sel: ast.NewIdent(f.Name())}
		info.Types[ns] = types.TypeAndValue{Type: f.Type()}
		base = ns
		t = f.Type()
	}
	out := &ast.SelectorExpr{X: base, Sel: x.Sel}
	info.Types[out] = info.Types[x]
	return out
}

var valueRecvRE = regexp.MustCompile(`^(\w+)\.\((\w+)\)\.\w+$`)

func isInterfaceMethodName(n string) bool {
	// e.g. io.Writer.Write: two dots
	return strings.Count(n, ".") == 2
}

func splitTop(s string, sep byte) []string {
	var out []string
	depth := 0
	start := 0
	for i := 0; i < len(s); i++ {
		switch s[i] {
		case '(', '[', '{':
			depth++
		case ')', ']', '}':
			depth--
		default:
			if s[i] == sep && depth == 0 {
				out = append(out, s[start:i])
				start = i + 1
			}
		}
	}
	return append(out, s[start:])
}

func checkTypeExpr(fset *token.FileSet, pkg *types.Package, pos token.Pos, src string) (types.Type, error) {
	ex, err := parser.ParseExprFrom(fset, "type", src, 0)
	if err != nil {
		return nil, err
	}
	info := &types.Info{Types: map[ast.Expr]types.TypeAndValue{}}
	if err := types.CheckExpr(fset, pkg, pos, ex, info); err != nil {
		return nil, err
	}
	return info.Types[ex].Type, nil
}

// checkOne wraps expr in a function literal declaring the extra names and
// type-checks it at pos; it returns the inner expression.
func (e *Engine) checkOne(fset *token.FileSet, pkg *types.Package, pos token.Pos, extra []string, text, ret string, info *types.Info) (ast.Expr, error) {
	var src string
	if ret == "" {
		src = "func(" + strings.Join(extra, ", ") + ") { _ = " + text + " }"
		if strings.HasSuffix(strings.TrimSpace(text), ")") {
			src = "func(" + strings.Join(extra, ", ") + ") { " + text + " }"
		}
	} else {
		src = "func(" + strings.Join(extra, ", ") + ") " + ret + " { return " + text + " }"
	}
	ex, err := parser.ParseExprFrom(fset, "contract", src, 0)
	if err != nil {
		return nil, err
	}
	if err := types.CheckExpr(fset, pkg, pos, ex, info); err != nil {
		return nil, err
	}
	fl := ex.(*ast.FuncLit)
	switch s := fl.Body.List[0].(type) {
	case *ast.ReturnStmt:
		return s.Results[0], nil
	case *ast.ExprStmt:
		return s.X, nil
	case *ast.AssignStmt:
		return s.Rhs[0], nil
	}
	return nil, fmt.Errorf("unexpected wrapper shape")
}

// ------------------------------------------------------------ evaluation

// Env evaluates contract expressions against a symbolic state.
type Env struct {
	u     *Unit
	st    *State
	vars  map[string]Val         // parameters, results, quantified variables
	fr    *Frame                 // for locals (loop invariants)
	li    *loopInfo              // loop whose header the expression is evaluated at
	old   *Env                   // environment of old(...)
	info  *types.Info
	bound map[types.Object]*Term // quantifier-bound variables
	isOld bool
	assuming bool // the expression is being assumed (callee contract at a call site), not proved
	loopEntry *State // state at loop entry while the invariant is first established
}

func (env *Env) typeOf(e ast.Expr) types.Type {
	if t := env.info.TypeOf(e); t != nil {
		return t
	}
	panic(env.u.errf("no type for contract expression %s", exprString(e)))
}

func exprString(e ast.Expr) string { return types.ExprString(e) }

func (u *Unit) evalIn(env *Env, cl *Clause) *Term {
	ci := u.eng.checked[u.eng.clauseOwner[cl]]
	env.info = ci.info
	if env.old != nil {
		env.old.info = ci.info
	}
	ex := ci.exprs[cl]
	v := env.eval(ex)
	t, ok := v.(*Term)
	if !ok || t.sort != SBool {
		panic(u.errf("clause %q is not a boolean term", cl.text))
	}
	return t
}

// evalClause evaluates a loop clause (or any clause of the function being
// executed) in frame fr at state st.
func (u *Unit) evalClause(fr *Frame, st *State, cl *Clause, li *loopInfo) *Term {
	env := u.frameEnv(fr, st, li)
	return u.evalIn(env, cl)
}

func (u *Unit) evalClauseTerm(fr *Frame, st *State, cl *Clause, li *loopInfo) *Term {
	env := u.frameEnv(fr, st, li)
	ci := u.eng.checked[u.eng.clauseOwner[cl]]
	env.info = ci.info
	env.old.info = ci.info
	return env.eval(ci.exprs[cl]).(*Term)
}

func (u *Unit) frameEnv(fr *Frame, st *State, li *loopInfo) *Env {
	env := &Env{u: u, st: st, fr: fr, li: li, vars: map[string]Val{}}
	env.old = &Env{u: u, st: fr.entry, fr: fr, vars: map[string]Val{}, isOld: true}
	return env
}

func (env *Env) lookupVar(id *ast.Ident) (Val, bool) {
	obj := env.info.Uses[id]
	if obj == nil {
		obj = env.info.Defs[id]
	}
	if obj != nil {
		if t, ok := env.bound[obj]; ok {
			return t, true
		}
	}
	if id.Name == "rangeindex" && env.li != nil && env.fr != nil && obj != nil && obj.Parent() != nil && obj.Pkg() != nil {
		if al := rangeIndexCell(env.li); al != nil {
			if v, ok := env.st.cells[al]; ok {
				return v, true
			}
		}
	}
	if v, ok := env.vars[id.Name]; ok {
		// names declared by the wrapper (results, extern params) or callee params
		if obj == nil || !isLocalOfFrame(env, obj) {
			return v, true
		}
	}
	if obj == nil {
		return nil, false
	}
	vr, ok := obj.(*types.Var)
	if !ok {
		return nil, false
	}
	if env.fr != nil && env.isOld {
		if v, ok := env.fr.paramVals[id.Name]; ok {
			return v, true
		}
	}
	if env.fr != nil {
		// local variable or parameter of the executing function: find its cell
		al := env.u.allocFor(env.fr, vr)
		if al != nil {
			if _, live := env.st.cells[al]; !live {
				// several cells may carry the same declaration position (the implicit
				// variables of the clauses of a type switch): use the one that is live
				for _, c := range env.u.allocCandidates(env.fr, vr) {
					if _, ok := env.st.cells[c]; ok {
						al = c
						break
					}
				}
			}
		}
		if al != nil {
			if env.li != nil && env.fr.aliases[env.li.header] != nil {
				if hid, ok := env.fr.aliases[env.li.header][al]; ok && !env.isOld {
					al = hid
				}
			}
			v, ok := env.st.cells[al]
			if !ok {
				// a struct-typed variable that escapes (captured by a closure) lives in the heap
				if sa := al; sa != nil && sa.Heap {
					if ref, isRef := env.fr.vals[sa].(*Term); isRef {
						et := sa.Type().Underlying().(*types.Pointer).Elem()
						if isStructType(et) {
							return env.u.loadStruct(env.st, ref, et), true
						}
					}
				}
				panic(env.u.errf("contract mentions %s which is not live here", id.Name))
			}
			return v, true
		}
		// captured variable of a closure
		for i, fv := range env.fr.fn.FreeVars {
			if fv.Name() == id.Name {
				if p, ok := env.fr.binds[i].(*Ptr); ok {
					return env.u.load(env.st, p), true
				}
			}
		}
	}
	// package-level variable
	if vr.Parent() == vr.Pkg().Scope() {
		g := env.u.eng.globalFor(vr)
		if g != nil {
			return env.u.globalValue(g), true
		}
	}
	return nil, false
}

func isLocalOfFrame(env *Env, obj types.Object) bool {
	if env.fr == nil {
		return false
	}
	vr, ok := obj.(*types.Var)
	if !ok {
		return false
	}
	return env.u.allocFor(env.fr, vr) != nil
}

// allocFor finds the cell of a local variable (matched by declaration position).
func (u *Unit) allocFor(fr *Frame, v *types.Var) *ssa.Alloc {
	key := allocKey{fr.fn, v.Pos(), v.Name()}
	if al, ok := u.allocCache[key]; ok {
		return al
	}
	var found *ssa.Alloc
	for _, b := range fr.fn.Blocks {
		for _, ins := range b.Instrs {
			if al, ok := ins.(*ssa.Alloc); ok && al.Comment == v.Name() && al.Pos() == v.Pos() {
				found = al
			}
		}
	}
	u.allocCache[key] = found
	return found
}

func (u *Unit) allocCandidates(fr *Frame, v *types.Var) []*ssa.Alloc {
	var out []*ssa.Alloc
	for _, b := range fr.fn.Blocks {
		for _, ins := range b.Instrs {
			if al, ok := ins.(*ssa.Alloc); ok && al.Comment == v.Name() && al.Pos() == v.Pos() {
				out = append(out, al)
			}
		}
	}
	return out
}

type allocKey struct {
	fn   *ssa.Function
	pos  token.Pos
	name string
}

func (env *Env) eval(e ast.Expr) Val {
	u := env.u
	m := u.m
	tb := m.tb
	e = ast.Unparen(e)
	if tv, ok := env.info.Types[e]; ok && tv.Value != nil {
		t := tv.Type
		if b, ok := t.Underlying().(*types.Basic); ok && b.Info()&types.IsUntyped != 0 {
			t = types.Default(t)
		}
		return m.ConstOf(tv.Value, t)
	}
	switch x := e.(type) {
	case *ast.Ident:
		if x.Name == "nil" {
			t := env.typeOf(x)
			if pt, ok := t.Underlying().(*types.Pointer); ok && !isStructType(pt.Elem()) {
				return nil
			}
			if b, ok := t.Underlying().(*types.Basic); ok && b.Kind() == types.UntypedNil {
				return tb.Int(0)
			}
			return m.Zero(t)
		}
		if v, ok := env.lookupVar(x); ok {
			return v
		}
		panic(u.errf("contract: cannot resolve identifier %s", x.Name))
	case *ast.UnaryExpr:
		switch x.Op {
		case token.NOT:
			return tb.Not(env.eval(x.X).(*Term))
		case token.SUB:
			return m.Neg(env.eval(x.X).(*Term), env.typeOf(x)).val
		case token.XOR:
			return m.BitNot(env.eval(x.X).(*Term), env.typeOf(x))
		case token.ADD:
			return env.eval(x.X)
		}
	case *ast.StarExpr:
		p := env.eval(x.X)
		switch pv := p.(type) {
		case *Ptr:
			return u.load(env.st, pv)
		case *Term:
			return u.loadStruct(env.st, pv, env.typeOf(x))
		}
		panic(u.errf("contract: dereference of %T", p))
	case *ast.BinaryExpr:
		return env.binary(x)
	case *ast.CallExpr:
		return env.call(x)
	case *ast.IndexExpr:
		base := env.eval(x.X)
		bt := env.typeOf(x.X)
		idx := m.Convert(env.eval(x.Index).(*Term), env.typeOf(x.Index), tInt)
		return env.indexVal(base, bt, idx)
	case *ast.SliceExpr:
		base := env.eval(x.X).(*Term)
		var lo, hi *Term
		if x.Low != nil {
			lo = m.Convert(env.eval(x.Low).(*Term), env.typeOf(x.Low), tInt)
		} else {
			lo = m.IxConst(0)
		}
		if base.sort == SSlice {
			if x.High != nil {
				hi = m.Convert(env.eval(x.High).(*Term), env.typeOf(x.High), tInt)
			} else {
				hi = m.SliceLen(base)
			}
			return m.MkSlice(m.SliceRef(base), m.IxAdd(m.SliceOff(base), lo), m.IxSub(hi, lo), m.IxSub(m.SliceCap(base), lo))
		}
		if x.High != nil {
			hi = m.Convert(env.eval(x.High).(*Term), env.typeOf(x.High), tInt)
		} else {
			hi = m.SeqLen(base)
		}
		return m.MkSeq(base.sort, m.SeqArr(base), m.IxAdd(m.SeqOff(base), lo), m.IxSub(hi, lo))
	case *ast.SelectorExpr:
		// package-qualified identifier
		if id, ok := x.X.(*ast.Ident); ok {
			if _, isPkg := env.info.Uses[id].(*types.PkgName); isPkg {
				obj := env.info.Uses[x.Sel]
				if vr, ok := obj.(*types.Var); ok {
					if g := u.eng.globalFor(vr); g != nil {
						return u.globalValue(g)
					}
				}
				panic(u.errf("contract: cannot resolve %s", exprString(x)))
			}
		}
		sel := env.info.Selections[x]
		var selIndex []int
		if sel != nil && sel.Kind() == types.FieldVal {
			selIndex = sel.Index()
		} else if sel == nil {
			// synthesized selector (expandPromoted): resolve the field by name
			if obj, index, _ := types.LookupFieldOrMethod(env.typeOf(x.X), true, pkgOfType(env.typeOf(x.X), u.con.pkg.Types), x.Sel.Name); obj != nil {
				if _, isVar := obj.(*types.Var); isVar {
					selIndex = index
				}
			}
		}
		if selIndex == nil {
			panic(u.errf("contract: unsupported selector %s", exprString(x)))
		}
		base := env.eval(x.X)
		bt := env.typeOf(x.X)
		for _, fi := range selIndex {
			if pt, ok := bt.Underlying().(*types.Pointer); ok {
				bt = pt.Elem()
				switch b := base.(type) {
				case *Term: // heap object
					dt := m.structInfo(bt)
					ft := dt.fields[fi].typ
					if isStructType(ft) {
						// keep as a reference to the embedded object (pointer-like)
						base = u.loadStruct(env.st, u.subRef(dt, fi, b), ft)
					} else {
						base = u.loadField(env.st, b, dt, fi)
						u.assume(env.st.guard, m.InRange(base.(*Term), ft))
					}
					bt = ft
					continue
				case *Ptr:
					base = u.load(env.st, b)
				}
			}
			base = m.StructField(base.(*Term), bt, fi)
			bt = bt.Underlying().(*types.Struct).Field(fi).Type()
		}
		return base
	case *ast.CompositeLit:
		t := env.typeOf(x)
		if st, ok := t.Underlying().(*types.Struct); ok {
			v := m.Zero(t)
			for i, el := range x.Elts {
				if kv, ok := el.(*ast.KeyValueExpr); ok {
					fi := fieldIndex(t, kv.Key.(*ast.Ident).Name)
					v = m.StructWith(v, t, fi, env.eval(kv.Value).(*Term))
				} else {
					v = m.StructWith(v, t, i, env.eval(el).(*Term))
				}
			}
			_ = st
			return v
		}
	}
	panic(u.errf("contract: unsupported expression %s (%T)", exprString(e), e))
}

// evalLoc evaluates an expression that denotes a struct location — a pointer to
// a struct, or a (possibly nested, possibly embedded) struct-typed field of one —
// to the reference of that struct object. ok is false when the base is not a
// heap object (a local struct reached through a cell pointer).
func (env *Env) evalLoc(e ast.Expr) (ref *Term, ok bool) {
	u := env.u
	e = ast.Unparen(e)
	t := env.typeOf(e)
	if _, isPtr := t.Underlying().(*types.Pointer); isPtr {
		r, ok := env.eval(e).(*Term)
		return r, ok
	}
	if !isStructType(t) {
		return nil, false
	}
	switch x := e.(type) {
	case *ast.StarExpr:
		r, ok := env.eval(x.X).(*Term)
		return r, ok
	case *ast.SelectorExpr:
		bt := env.typeOf(x.X)
		if pt, ok := bt.Underlying().(*types.Pointer); ok {
			bt = pt.Elem()
		}
		base, ok := env.evalLoc(x.X)
		if !ok {
			return nil, false
		}
		_, index, _ := types.LookupFieldOrMethod(bt, true, pkgOfType(bt, u.con.pkg.Types), x.Sel.Name)
		if len(index) == 0 {
			panic(u.errf("contract: cannot resolve location %s", exprString(e)))
		}
		for _, fi := range index {
			dt := u.m.structInfo(bt)
			base = u.subRef(dt, fi, base)
			bt = dt.fields[fi].typ
			if !isStructType(bt) {
				panic(u.errf("contract: location %s passes through a non-struct field", exprString(e)))
			}
		}
		return base, true
	}
	return nil, false
}

func (env *Env) indexVal(base Val, bt types.Type, idx *Term) Val {
	u := env.u
	m := u.m
	b := base.(*Term)
	switch tt := bt.Underlying().(type) {
	case *types.Slice:
		if b.sort == SSlice {
			arr := u.elemsArr(env.st, m.SliceRef(b), tt.Elem())
			r := m.tb.Select(arr, m.ElemIx(m.SliceOff(b), idx))
			if r.bound {
				u.assumeArrTyping(arr, tt.Elem())
			} else {
				u.assume(env.st.guard, m.InRange(r, tt.Elem()))
			}
			return r
		}
		return m.SeqAt(b, idx)
	case *types.Basic:
		return m.SeqAt(b, idx)
	case *types.Array:
		return m.tb.Select(b, idx)
	}
	if isTypeParam(bt) {
		return m.SeqAt(b, idx)
	}
	panic(u.errf("contract: index of %s", bt))
}

func (env *Env) binary(x *ast.BinaryExpr) Val {
	u := env.u
	m := u.m
	tb := m.tb
	switch x.Op {
	case token.LAND:
		return tb.And(env.eval(x.X).(*Term), env.eval(x.Y).(*Term))
	case token.LOR:
		return tb.Or(env.eval(x.X).(*Term), env.eval(x.Y).(*Term))
	}
	xt := env.typeOf(x.X)
	if b, ok := xt.Underlying().(*types.Basic); ok && (b.Info()&types.IsUntyped != 0 || b.Kind() == types.UntypedNil) {
		xt = env.typeOf(x.Y)
		if b, ok := xt.Underlying().(*types.Basic); ok && b.Info()&types.IsUntyped != 0 {
			xt = types.Default(xt)
		}
	}
	a := env.evalAs(x.X, xt)
	switch x.Op {
	case token.SHL, token.SHR:
		ct := env.typeOf(x.Y)
		if b, ok := ct.Underlying().(*types.Basic); ok && b.Info()&types.IsUntyped != 0 {
			ct = types.Typ[types.Uint]
		}
		c := env.evalAs(x.Y, ct)
		return m.BinOp(x.Op, a.(*Term), c.(*Term), env.typeOf(x), ct).val
	}
	b := env.evalAs(x.Y, xt)
	switch x.Op {
	case token.EQL:
		return u.equal(env.st, a, b, xt, token.NoPos)
	case token.NEQ:
		return tb.Not(u.equal(env.st, a, b, xt, token.NoPos))
	case token.LSS, token.LEQ, token.GTR, token.GEQ:
		return m.Compare(x.Op, a.(*Term), b.(*Term), xt)
	}
	if isBool(xt) {
		panic(u.errf("contract: boolean operator %s", x.Op))
	}
	return m.BinOp(x.Op, a.(*Term), b.(*Term), env.typeOf(x), env.typeOf(x.Y)).val
}

// evalAs evaluates e, giving untyped constants the type t.
func (env *Env) evalAs(e ast.Expr, t types.Type) Val {
	if id, ok := ast.Unparen(e).(*ast.Ident); ok && id.Name == "nil" {
		if _, isNil := env.info.Uses[id].(*types.Nil); isNil {
			if pt, ok := t.Underlying().(*types.Pointer); ok && !isStructType(pt.Elem()) {
				return nil
			}
			if _, ok := t.Underlying().(*types.Pointer); ok {
				return env.u.m.tb.Int(0)
			}
			return env.u.m.Zero(t)
		}
	}
	if tv, ok := env.info.Types[ast.Unparen(e)]; ok && tv.Value != nil {
		if b, ok := tv.Type.Underlying().(*types.Basic); ok && b.Info()&types.IsUntyped != 0 {
			if _, isInt := intTypeInfo(t); isInt || isBool(t) || isString(t) {
				if tv.Value.Kind() == constant.Int || tv.Value.Kind() == constant.Bool || tv.Value.Kind() == constant.String {
					return env.u.m.ConstOf(tv.Value, t)
				}
			}
		}
	}
	return env.eval(e)
}

func (env *Env) call(x *ast.CallExpr) Val {
	u := env.u
	m := u.m
	tb := m.tb
	// conversion?
	if tv, ok := env.info.Types[x.Fun]; ok && tv.IsType() {
		to := tv.Type
		from := env.typeOf(x.Args[0])
		v := env.eval(x.Args[0])
		_, fi := intTypeInfo(from)
		_, ti := intTypeInfo(to)
		if fi && ti {
			if b, ok := from.Underlying().(*types.Basic); ok && b.Info()&types.IsUntyped != 0 {
				return v
			}
			return m.Convert(v.(*Term), from, to)
		}
		if isString(to) {
			if t, ok := v.(*Term); ok && t.sort == SSlice {
				return u.sliceToSeq(env.st, t, from.Underlying().(*types.Slice).Elem())
			}
			return v
		}
		if types.Identical(from.Underlying(), to.Underlying()) {
			return v
		}
		panic(u.errf("contract: unsupported conversion %s", exprString(x)))
	}
	var fname string
	switch f := ast.Unparen(x.Fun).(type) {
	case *ast.Ident:
		fname = f.Name
	case *ast.IndexExpr:
		if id, ok := f.X.(*ast.Ident); ok {
			fname = id.Name
		}
	}
	obj := env.calleeObj(x.Fun)
	if _, isBuiltin := obj.(*types.Builtin); isBuiltin {
		switch fname {
		case "len", "cap":
			v := env.eval(x.Args[0]).(*Term)
			if v.sort == SSlice {
				if fname == "len" {
					return m.SliceLen(v)
				}
				return m.SliceCap(v)
			}
			if at, ok := env.typeOf(x.Args[0]).Underlying().(*types.Array); ok {
				return m.IxConst(at.Len())
			}
			return m.SeqLen(v)
		case "min", "max":
			t := env.typeOf(x)
			acc := env.evalAs(x.Args[0], t).(*Term)
			for _, a := range x.Args[1:] {
				at := env.evalAs(a, t).(*Term)
				op := token.LSS
				if fname == "max" {
					op = token.GTR
				}
				acc = tb.Ite(m.Compare(op, at, acc, t), at, acc)
			}
			return acc
		}
		panic(u.errf("contract: unsupported builtin %s", fname))
	}
	switch fname {
	case "old":
		if env.old == nil {
			panic(u.errf("contract: old() is not available here"))
		}
		env.old.info = env.info
		env.old.bound = env.bound
		return env.old.eval(x.Args[0])
	case "bigc":
		tv := env.info.Types[x.Args[0]]
		if tv.Value == nil {
			panic(u.errf("contract: bigc needs a string literal"))
		}
		return u.bigConst(constant.StringVal(tv.Value))
	case "mathWrap64":
		return u.mathWrap64(env.eval(x.Args[0]).(*Term))
	case "prev":
		// value at the loop header of the current iteration (in `loop k step` clauses)
		if env.li == nil || env.u.loopCtxs[env.li] == nil || env.u.loopCtxs[env.li].header == nil {
			panic(u.errf("contract: prev() is only available in loop step clauses"))
		}
		penv := *env
		penv.st = env.u.loopCtxs[env.li].header
		return penv.eval(x.Args[0])
	case "entry":
		// value at loop entry (before the first iteration)
		if env.li == nil || env.u.loopCtxs[env.li] == nil && env.loopEntry == nil {
			panic(u.errf("contract: entry() is only available in loop invariants"))
		}
		le := env.loopEntry
		if le == nil {
			le = env.u.loopCtxs[env.li].entry
		}
		nenv := *env
		nenv.st = le
		return nenv.eval(x.Args[0])
	case "distinctArrays":
		a := env.eval(x.Args[0]).(*Term)
		b := env.eval(x.Args[1]).(*Term)
		// different backing arrays, or one of them has no capacity at all (nothing can be
		// read or written through it) — the same condition the executable helper tests
		return tb.Or(tb.Not(tb.Eq(m.SliceRef(a), m.SliceRef(b))), tb.Eq(m.SliceRef(a), tb.Int(0)))
	case "freshArray":
		// freshArray(s): the array backing s was allocated during the call (assumed at a
		// call site) / by this function (when proved): it is outside the allocation set
		// of the pre-state, hence distinct from every array known before.
		res := env.eval(x.Args[0]).(*Term)
		if env.assuming && env.old != nil {
			before := u.allocSet(env.old.st)
			return tb.And(tb.Not(tb.Select(before, m.SliceRef(res))), tb.Lt(tb.Int(0), m.SliceRef(res)), tb.Eq(m.SliceOff(res), m.IxConst(0)))
		}
		return tb.And(tb.Not(u.isAlloc0(m.SliceRef(res))), tb.Lt(tb.Int(0), m.SliceRef(res)), tb.Eq(m.SliceOff(res), m.IxConst(0)))
	case "sameValue":
		// sameValue(a, b): identical values (for types Go cannot compare with ==:
		// structs holding slices; slices are compared as headers)
		return tb.Eq(env.eval(x.Args[0]).(*Term), env.eval(x.Args[1]).(*Term))
	case "freshObject":
		// freshObject(p): p is nil or points to an object allocated during the call
		// (assumed at a call site) / by this function (proved)
		ref, ok := env.eval(x.Args[0]).(*Term)
		if !ok {
			panic(u.errf("contract: freshObject needs a pointer to a struct"))
		}
		if env.assuming && env.old != nil {
			return tb.Or(tb.Eq(ref, tb.Int(0)), tb.And(tb.Not(tb.Select(u.allocSet(env.old.st), ref)), tb.Lt(tb.Int(0), ref)))
		}
		return tb.Or(tb.Eq(ref, tb.Int(0)), tb.And(tb.Not(u.isAlloc0(ref)), tb.Lt(tb.Int(0), ref)))
	case "sliceOf":
		// sliceOf(a, b): a lies inside b (same backing array, within b's bounds)
		a := env.eval(x.Args[0]).(*Term)
		b := env.eval(x.Args[1]).(*Term)
		return tb.And(tb.Eq(m.SliceRef(a), m.SliceRef(b)), m.IxLe(m.SliceOff(b), m.SliceOff(a)),
			m.IxLe(m.IxAdd(m.SliceOff(a), m.SliceLen(a)), m.IxAdd(m.SliceOff(b), m.SliceLen(b))))
	case "sameSlice":
		// sameSlice(a, b): the same slice header (array, start, length, capacity)
		return tb.Eq(env.eval(x.Args[0]).(*Term), env.eval(x.Args[1]).(*Term))
	case "unchanged":
		// unchanged(s): the backing array of s holds what it held on entry
		if env.old == nil {
			panic(u.errf("contract: unchanged() needs a pre-state"))
		}
		sl := env.eval(x.Args[0]).(*Term)
		et := env.typeOf(x.Args[0]).Underlying().(*types.Slice).Elem()
		return tb.Eq(u.elemsArr(env.st, m.SliceRef(sl), et), u.elemsArr(env.old.st, m.SliceRef(sl), et))
	case "sameOrFresh":
		// sameOrFresh(res, src): res shares src's backing array (same start) or was
		// freshly allocated by the call. Proved from the allocations the callee made;
		// assumed by callers with a fresh reference of their own.
		res := env.eval(x.Args[0]).(*Term)
		src := env.eval(x.Args[1]).(*Term)
		same := tb.And(tb.Eq(m.SliceRef(res), m.SliceRef(src)), tb.Eq(m.SliceOff(res), m.SliceOff(src)), tb.Eq(m.SliceCap(res), m.SliceCap(src)))
		if env.assuming && env.old != nil {
			// allocated during the call: not in the caller's allocation set before it
			before := u.allocSet(env.old.st)
			return tb.Or(same, tb.And(tb.Not(tb.Select(before, m.SliceRef(res))), tb.Lt(tb.Int(0), m.SliceRef(res)), tb.Eq(m.SliceOff(res), m.IxConst(0))))
		}
		// every allocation this function makes is outside the entry allocation set
		return tb.Or(same, tb.And(tb.Not(u.isAlloc0(m.SliceRef(res))), tb.Lt(tb.Int(0), m.SliceRef(res)), tb.Eq(m.SliceOff(res), m.IxConst(0))))
	case "implies":
		return tb.Implies(env.eval(x.Args[0]).(*Term), env.eval(x.Args[1]).(*Term))
	case "iff":
		return tb.Eq(env.eval(x.Args[0]).(*Term), env.eval(x.Args[1]).(*Term))
	case "ite":
		t := env.typeOf(x)
		return tb.Ite(env.eval(x.Args[0]).(*Term), env.evalAs(x.Args[1], t).(*Term), env.evalAs(x.Args[2], t).(*Term))
	case "vForall", "vExists":
		lo := env.evalAs(x.Args[0], tInt).(*Term)
		hi := env.evalAs(x.Args[1], tInt).(*Term)
		fl, ok := ast.Unparen(x.Args[2]).(*ast.FuncLit)
		if !ok || len(fl.Body.List) != 1 {
			panic(u.errf("contract: %s needs a function literal with a single return", fname))
		}
		ret := fl.Body.List[0].(*ast.ReturnStmt).Results[0]
		pid := fl.Type.Params.List[0].Names[0]
		pobj := env.info.Defs[pid]
		bv := tb.BoundVar(pid.Name, m.ixSort())
		nenv := *env
		nenv.bound = map[types.Object]*Term{}
		for k, v := range env.bound {
			nenv.bound[k] = v
		}
		nenv.bound[pobj] = bv
		body := nenv.eval(ret).(*Term)
		rng := tb.And(m.IxLe(lo, bv), m.IxLt(bv, hi))
		if fname == "vForall" {
			return tb.Forall([]*Term{bv}, tb.Implies(rng, body))
		}
		return tb.Exists([]*Term{bv}, tb.And(rng, body))
	}
	// spec function
	if fobj, ok := obj.(*types.Func); ok {
		fn := u.eng.ssaFunc(fobj)
		if fn != nil {
			name := u.eng.funcName(fn)
			if con := u.eng.contracts[name]; con != nil && con.kind == "spec" {
				var args []Val
				sig := fobj.Type().(*types.Signature)
				for i, a := range x.Args {
					args = append(args, env.evalAs(a, sig.Params().At(i).Type()))
				}
				return u.applySpec(env.st, con, fn, args, sig)
			}
			// pure method on a struct value with an inline contract (e.g. stateEntry predicates)
			if con := u.eng.contracts[name]; con != nil && con.inline {
				var args []Val
				sig := fobj.Type().(*types.Signature)
				if sig.Recv() != nil {
					se := ast.Unparen(x.Fun).(*ast.SelectorExpr)
					rv := env.eval(se.X)
					_, recvIsPtr := sig.Recv().Type().Underlying().(*types.Pointer)
					if pt, argIsPtr := env.typeOf(se.X).Underlying().(*types.Pointer); argIsPtr && !recvIsPtr {
						// value receiver called through a pointer: dereference
						switch p := rv.(type) {
						case *Term:
							rv = u.loadStruct(env.st, p, pt.Elem())
						case *Ptr:
							rv = u.load(env.st, p)
						}
					}
					args = append(args, rv)
				}
				for i, a := range x.Args {
					args = append(args, env.evalAs(a, sig.Params().At(i).Type()))
				}
				st2 := env.st.clone()
				save := u.quiet
				u.quiet = true
				fr := &Frame{fn: fn, depth: 0}
				if env.fr != nil {
					fr.depth = env.fr.depth
				}
				v := u.inline(fr, st2, &FuncVal{fn: fn}, con, args, token.NoPos)
				u.quiet = save
				return v
			}
		}
	}
	panic(u.errf("contract: call of %s is not a spec function", exprString(x.Fun)))
}

func (env *Env) calleeObj(f ast.Expr) types.Object {
	switch f := ast.Unparen(f).(type) {
	case *ast.Ident:
		return env.info.Uses[f]
	case *ast.SelectorExpr:
		return env.info.Uses[f.Sel]
	case *ast.IndexExpr:
		return env.calleeObj(f.X)
	}
	return nil
}

// findCallPos locates the K-th call (source order) of the named function in body
// (spec "name#K"; name as written at the call site, e.g. utf8.DecodeRune).
func findCallPos(body *ast.BlockStmt, info *types.Info, pkg *packages.Package, spec string) (token.Pos, error) {
	name, ks, _ := strings.Cut(spec, "#")
	k := 0
	if ks != "" {
		fmt.Sscanf(ks, "%d", &k)
	}
	var found []token.Pos
	ast.Inspect(body, func(n ast.Node) bool {
		if ce, ok := n.(*ast.CallExpr); ok {
			if types.ExprString(ce.Fun) == name {
				found = append(found, ce.Lparen)
			}
		}
		return true
	})
	if k >= len(found) {
		return token.NoPos, fmt.Errorf("no call %s (found %d calls of %s)", spec, len(found), name)
	}
	return found[k], nil
}

func rangeIndexCell(li *loopInfo) *ssa.Alloc {
	for _, in := range li.header.Instrs {
		if ld, ok := in.(*ssa.UnOp); ok && ld.Op == token.MUL {
			if al, ok := ld.X.(*ssa.Alloc); ok && al.Comment == "rangeindex" {
				return al
			}
		}
	}
	return nil
}

// callResultParams: wrapper parameters naming the results of the call at lparen
// (callResult for a single result, callResult0.. for several).
func callResultParams(body *ast.BlockStmt, info *types.Info, pkg *types.Package, lparen token.Pos) []string {
	var out []string
	ast.Inspect(body, func(n ast.Node) bool {
		ce, ok := n.(*ast.CallExpr)
		if !ok || ce.Lparen != lparen {
			return true
		}
		switch t := info.TypeOf(ce).(type) {
		case *types.Tuple:
			for i := 0; i < t.Len(); i++ {
				out = append(out, fmt.Sprintf("callResult%d %s", i, typeText(t.At(i).Type(), pkg)))
			}
		case nil:
		default:
			out = append(out, "callResult "+typeText(t, pkg))
		}
		// the call's (non-variadic-spread) arguments, by position: callArg0, callArg1, ...
		if !ce.Ellipsis.IsValid() {
			for i, a := range ce.Args {
				if at := info.TypeOf(a); at != nil {
					if b, isBasic := at.(*types.Basic); isBasic && b.Info()&types.IsUntyped != 0 {
						continue
					}
					out = append(out, fmt.Sprintf("callArg%d %s", i, typeText(at, pkg)))
				}
			}
		}
		return false
	})
	return out
}

// pkgOfType: the package in which the (possibly pointed-to) named type t is
// declared - unexported fields are looked up from there (a callee's frame may name
// fields of a type of another package than the unit's); def when t is unnamed.
func pkgOfType(t types.Type, def *types.Package) *types.Package {
	if p, ok := t.Underlying().(*types.Pointer); ok {
		t = p.Elem()
	}
	if p, ok := t.(*types.Pointer); ok {
		t = p.Elem()
	}
	if n, ok := t.(*types.Named); ok && n.Obj() != nil && n.Obj().Pkg() != nil {
		return n.Obj().Pkg()
	}
	return def
}
