package main

// Loops (invariants), calls (builtins, inlining, modular contracts, havoc).

import (
	"fmt"
	"go/ast"
	"go/constant"
	"go/token"
	"go/types"
	"math/big"
	"os"
	"sort"
	"strings"

	"golang.org/x/tools/go/ssa"
)

// ------------------------------------------------------------ loops

type loopCtx struct {
	header  *State
	entry   *State
	variant *Term
}

func (u *Unit) loopClauses(fr *Frame, li *loopInfo, kind string) []*Clause {
	var out []*Clause
	if fr.con == nil {
		return nil
	}
	for _, cl := range fr.con.clauses {
		if cl.kind == kind && cl.loop == li.ordinal {
			out = append(out, cl)
		}
	}
	return out
}

func (u *Unit) enterLoop(fr *Frame, li *loopInfo, st *State) *State {
	m := u.m
	tb := m.tb
	invs := u.loopClauses(fr, li, "invariant")
	if len(invs) == 0 && !(u.con != nil && u.con.onlyAsserts != "") {
		panic(u.errf("loop %d of %s (block %d) has no invariant", li.ordinal, fr.fn.Name(), li.header.Index))
	}
	if li.modCells == nil {
		u.modSets(fr, li)
	}
	if len(fr.defers) > 0 {
		// defers registered before the loop stay; defers inside loops are outside the subset
	}
	// hints before establishing the invariant
	for _, h := range u.loopClauses(fr, li, "hint") {
		u.applyHint(fr, st, h, li)
	}
	u.loopCtxs[li] = &loopCtx{entry: st.clone()}
	for _, inv := range invs {
		g := u.evalClause(fr, st, inv, li)
		u.curWithout = inv.without
		u.oblige("inv-init", fmt.Sprintf("L%d-%s", li.ordinal, labelOr(inv, invs)), st, g, token.NoPos, inv.text)
		u.curWithout = nil
	}
	if g := u.autoRangeInv(fr, li, st); g != nil {
		u.oblige("inv-init", fmt.Sprintf("L%d-rangeindex", li.ordinal), st, g, token.NoPos, "-1 <= hidden range index < len (engine-generated)")
	}
	// the function's frame condition is kept as an invariant of every loop that writes the heap
	frameKeys := u.loopFrameKeys(fr, li)
	for _, k := range frameKeys {
		if g := u.frameGoal(st, k); g != nil {
			u.curWithout = u.con.frameWithout
			u.oblige("inv-init", fmt.Sprintf("L%d-frame-%s", li.ordinal, k), st, g, token.NoPos, "frame condition so far ("+k+", engine-generated)")
			u.curWithout = nil
		}
	}
	// havoc
	h := st.clone()
	type retyped struct {
		v *Term
		t types.Type
	}
	var retype []retyped
	var modCells []any
	for c := range li.modCells {
		modCells = append(modCells, c)
	}
	sort.Slice(modCells, func(i, j int) bool { return cellName(modCells[i]) < cellName(modCells[j]) })
	for _, c := range modCells {
		old, ok := h.cells[c]
		if !ok {
			continue
		}
		switch ov := old.(type) {
		case *Term:
			var typ types.Type
			switch cc := c.(type) {
			case *ssa.Alloc:
				typ = cc.Type().Underlying().(*types.Pointer).Elem()
			case *ghostCell:
				typ = cc.typ
			}
			nv := tb.Fresh("L"+fmt.Sprint(li.ordinal)+"_"+cellName(c), ov.sort)
			h.cells[c] = nv
			if typ != nil {
				retype = append(retype, retyped{nv, typ})
			}
		default:
			// executor-level value (closure, pointer): must be re-assigned before use
			h.cells[c] = undefVal{}
		}
	}
	allocBefore := u.allocSet(st)
	li.modHeap[allocHeapKey] = SArr(SInt, SBool) // loops may allocate
	if li.modAll {
		u.epochs++
		h.epoch = u.epochs
		h.heap = map[string]*Term{}
	} else {
		var hks []string
		for k := range li.modHeap {
			hks = append(hks, k)
		}
		sort.Strings(hks)
		for _, k := range hks {
			srt := li.modHeap[k]
			u.heapSorts[k] = srt
			h.heap[k] = tb.Fresh(fmt.Sprintf("L%d_%s", li.ordinal, k), srt)
		}
	}
	u.allocGrows(h.guard, allocBefore, u.allocSet(h))
	for _, rt := range retype {
		u.assumeTyping(h.guard, rt.v, rt.t, h)
	}
	for _, inv := range invs {
		u.curTag = fmt.Sprintf("L%d-%s", li.ordinal, labelOr(inv, invs))
		u.assume(h.guard, u.evalClause(fr, h, inv, li))
		u.curTag = ""
	}
	if g := u.autoRangeInv(fr, li, h); g != nil {
		u.assume(h.guard, g)
	}
	for _, k := range frameKeys {
		if g := u.frameGoal(h, k); g != nil {
			u.curTag = fmt.Sprintf("L%d-frame", li.ordinal)
			u.assume(h.guard, g)
			u.curTag = ""
		}
	}
	u.probe(fmt.Sprintf("L%d", li.ordinal), h)
	lc := &loopCtx{header: h.clone(), entry: st.clone()}
	if ds := u.loopClauses(fr, li, "decreases"); len(ds) > 0 {
		lc.variant = u.evalClauseTerm(fr, h, ds[0], li)
	}
	u.loopCtxs[li] = lc
	return h
}

type undefVal struct{}

func labelOr(cl *Clause, all []*Clause) string {
	if cl.label != "" {
		return cl.label
	}
	for i, c := range all {
		if c == cl {
			return fmt.Sprint(i)
		}
	}
	return "x"
}

func (u *Unit) closeLoop(fr *Frame, li *loopInfo, st *State, from *ssa.BasicBlock) {
	lc := u.loopCtxs[li]
	if lc == nil {
		panic(u.errf("back edge to a loop header that was not entered"))
	}
	for _, h := range u.loopClauses(fr, li, "hint") {
		u.applyHint(fr, st, h, li)
	}
	// step assertions: stepping stones about one iteration (may use prev())
	steps := u.loopClauses(fr, li, "step")
	for _, sc := range steps {
		g := u.evalClause(fr, st, sc, li)
		u.curWithout = sc.without
		u.oblige("assert", fmt.Sprintf("L%d-step-%s", li.ordinal, labelOr(sc, steps)), st, g, token.NoPos, sc.text)
		u.curWithout = nil
	}
	invs := u.loopClauses(fr, li, "invariant")
	for _, inv := range invs {
		g := u.evalClause(fr, st, inv, li)
		u.curWithout = inv.without
		u.oblige("inv-preserve", fmt.Sprintf("L%d-%s", li.ordinal, labelOr(inv, invs)), st, g, token.NoPos, inv.text)
		u.curWithout = nil
	}
	if g := u.autoRangeInv(fr, li, st); g != nil {
		u.oblige("inv-preserve", fmt.Sprintf("L%d-rangeindex", li.ordinal), st, g, token.NoPos, "-1 <= hidden range index < len (engine-generated)")
	}
	for _, k := range u.loopFrameKeys(fr, li) {
		if g := u.frameGoal(st, k); g != nil {
			u.curWithout = u.con.frameWithout
			u.oblige("inv-preserve", fmt.Sprintf("L%d-frame-%s", li.ordinal, k), st, g, token.NoPos, "frame condition so far ("+k+", engine-generated)")
			u.curWithout = nil
		}
	}
	if lc.variant != nil {
		ds := u.loopClauses(fr, li, "decreases")
		now := u.evalClauseTerm(fr, st, ds[0], li)
		m := u.m
		goal := m.tb.And(m.IxLe(m.IxConst(0), lc.variant), m.IxLt(now, lc.variant))
		u.oblige("variant", fmt.Sprintf("L%d", li.ordinal), st, goal, token.NoPos, ds[0].text)
	}
}

// ------------------------------------------------------------ calls

func (u *Unit) callDeferred(fr *Frame, st *State, d *ssa.Defer) {
	args := fr.deferAt[d]
	if d.Call.IsInvoke() {
		u.havocCall(st, &d.Call, "deferred interface call")
		return
	}
	u.callWith(fr, st, &d.Call, args[0], args[1:], d.Pos())
}

func (u *Unit) call(fr *Frame, st *State, c *ssa.CallCommon, instr ssa.Value, pos token.Pos) Val {
	if c.IsInvoke() {
		recv := u.value(fr, c.Value)
		var args []Val
		for _, a := range c.Args {
			args = append(args, u.value(fr, a))
		}
		name := types.TypeString(c.Value.Type(), func(p *types.Package) string { return p.Name() }) + "." + c.Method.Name()
		if con := u.eng.externs[name]; con != nil {
			return u.applyContract(fr, st, con, nil, append([]Val{recv}, args...), pos, name)
		}
		// methods of anonymous interface types cannot be named; `extern method:<name>`
		// is an assumption about every implementation reachable at such a call
		if con := u.eng.externs["method:"+c.Method.Name()]; con != nil && !strings.Contains(name, ".") || (con != nil && strings.HasPrefix(name, "interface{")) {
			return u.applyContract(fr, st, con, nil, append([]Val{recv}, args...), pos, "method:"+c.Method.Name())
		}
		return u.havocCall(st, c, "interface call "+name)
	}
	// a call through a function value held in a named variable (a captured variable
	// or a local) uses the extern contract `funcvalue:<name>` if one is declared: a
	// type-level assumption about whatever function the variable holds
	if uo, ok := c.Value.(*ssa.UnOp); ok && !c.IsInvoke() {
		vn := ""
		switch x := uo.X.(type) {
		case *ssa.FreeVar:
			vn = x.Name()
		case *ssa.Alloc:
			vn = x.Comment
		}
		if vn != "" {
			if con := u.eng.externs["funcvalue:"+vn]; con != nil {
				var args []Val
				for _, a := range c.Args {
					args = append(args, u.value(fr, a))
				}
				return u.applyContract(fr, st, con, nil, args, pos, "funcvalue:"+vn)
			}
		}
	}
	// a call through a package-level function variable (an injected hook such as
	// jsonopts.JoinUnknownOption) uses the extern contract declared under that name
	if uo, ok := c.Value.(*ssa.UnOp); ok {
		if g, ok := uo.X.(*ssa.Global); ok && g.Pkg != nil {
			name := g.Pkg.Pkg.Name() + "." + g.Name()
			if con := u.eng.externs[name]; con != nil {
				var args []Val
				for _, a := range c.Args {
					args = append(args, u.value(fr, a))
				}
				return u.applyContract(fr, st, con, nil, args, pos, name)
			}
		}
	}
	fv := u.value(fr, c.Value)
	var args []Val
	for _, a := range c.Args {
		args = append(args, u.value(fr, a))
	}
	return u.callWith(fr, st, c, fv, args, pos)
}

func (u *Unit) callWith(fr *Frame, st *State, c *ssa.CallCommon, fv Val, args []Val, pos token.Pos) Val {
	switch f := fv.(type) {
	case *ssa.Builtin:
		return u.builtin(fr, st, f, c, args, pos)
	case *FuncVal:
		fn := f.fn
		orig := fn
		if fn.Origin() != nil {
			orig = fn.Origin()
		}
		name := u.eng.funcName(orig)
		con := u.eng.contracts[name]
		if con != nil && con.mode == "bounded" {
			con = nil // a bounded stand-in never feeds a proof: the call is treated as uncontracted
		}
		if con == nil {
			if ext := u.eng.externs[name]; ext != nil {
				con = ext
			}
		}
		if v, ok := u.mathBuiltin(name, c, args); ok {
			return v
		}
		if u.m.specMode {
			if v, ok := u.quantCall(fr, st, name, args); ok {
				return v
			}
			if con == nil || (con.kind != "spec" && !con.inline) {
				if fn.Parent() == nil {
					panic(u.errf("spec function calls non-spec function %s", name))
				}
			}
		}
		switch {
		case con != nil && con.kind == "spec":
			return u.applySpec(st, con, orig, args, fn.Signature)
		case con != nil && con.inline:
			return u.inline(fr, st, f, con, args, pos)
		case con != nil:
			return u.applyContract(fr, st, con, fn, args, pos, name)
		case fn.Parent() != nil:
			return u.inline(fr, st, f, nil, args, pos)
		case fn.Synthetic != "" && (strings.HasSuffix(fn.Name(), "$thunk") || strings.HasSuffix(fn.Name(), "$bound")) && len(fn.Blocks) > 0:
			// method expression / method value wrappers: a single call of the method
			return u.inline(fr, st, f, nil, args, pos)
		}
		return u.havocCall(st, c, "call of uncontracted "+name)
	case nil, undefVal:
		u.oblige("nil", "", st, u.m.tb.False(), pos, "call of nil function value")
		return u.havocCall(st, c, "nil func")
	}
	return u.havocCall(st, c, "call through function value")
}

// havocCall: results unconstrained, every heap location unconstrained.
func (u *Unit) havocCall(st *State, c *ssa.CallCommon, why string) Val {
	u.noteHavoc(why)
	allocBefore := u.allocSet(st)
	u.epochs++
	st.epoch = u.epochs
	st.heap = map[string]*Term{}
	u.allocGrows(st.guard, allocBefore, u.allocSet(st))
	for cell := range u.ghosts {
		if old, ok := st.cells[cell].(*Term); ok {
			st.cells[cell] = u.freshOfType("havoc_"+cell.name, cell.typ, st.guard)
			_ = old
		}
	}
	res := c.Signature().Results()
	return u.freshResults(st, res, "havoc")
}

func (u *Unit) freshResults(st *State, res *types.Tuple, hint string) Val {
	switch res.Len() {
	case 0:
		return Tuple{}
	case 1:
		return u.freshVal(st, res.At(0).Type(), hint)
	}
	var t Tuple
	for i := 0; i < res.Len(); i++ {
		t = append(t, u.freshVal(st, res.At(i).Type(), fmt.Sprintf("%s%d", hint, i)))
	}
	return t
}

func (u *Unit) freshVal(st *State, t types.Type, hint string) Val {
	if pt, ok := t.Underlying().(*types.Pointer); ok && !isStructType(pt.Elem()) {
		g := &ghostCell{name: hint, typ: pt.Elem()}
		u.ghosts[g] = true
		st.cells[g] = u.freshOfType(hint+"_deref", pt.Elem(), st.guard)
		return &Ptr{kind: pCell, cell: g, base: pt.Elem(), typ: pt.Elem()}
	}
	if _, ok := t.Underlying().(*types.Signature); ok {
		return u.m.tb.Fresh(hint+"_fn", SInt)
	}
	// memory safety: references held by a value obtained in state st denote objects
	// allocated in st
	return u.freshOfTypeAt(st, hint, t)
}

func (u *Unit) inline(fr *Frame, st *State, f *FuncVal, con *Contract, args []Val, pos token.Pos) Val {
	if fr.depth > 6 {
		panic(u.errf("inlining depth exceeded at %s", f.fn.Name()))
	}
	nf := u.newFrame(f.fn, con, fr.depth+1)
	nf.binds = f.binds
	for i, p := range f.fn.Params {
		nf.vals[p] = args[i]
		nf.paramVals[p.Name()] = args[i]
	}
	rets := u.execBody(nf, st.clone())
	rst, vals, ok := u.mergeRets(rets)
	if !ok {
		// callee never returns (always panics): path is dead afterwards
		st.guard = u.m.tb.False()
		return u.freshResults(st, f.fn.Signature.Results(), "dead")
	}
	*st = *rst
	switch len(vals) {
	case 0:
		return Tuple{}
	case 1:
		return vals[0]
	}
	return Tuple(vals)
}

func (u *Unit) builtin(fr *Frame, st *State, b *ssa.Builtin, c *ssa.CallCommon, args []Val, pos token.Pos) Val {
	m := u.m
	tb := m.tb
	switch b.Name() {
	case "ssa:deferstack":
		return tb.Int(0)
	case "ssa:wrapnilchk":
		return args[0]
	case "len", "cap":
		at := c.Args[0].Type()
		switch tt := at.Underlying().(type) {
		case *types.Slice:
			if a0 := args[0].(*Term); a0.sort != SSlice {
				return m.SeqLen(a0)
			}
			if b.Name() == "len" {
				return m.SliceLen(args[0].(*Term))
			}
			return m.SliceCap(args[0].(*Term))
		case *types.Basic:
			return m.SeqLen(args[0].(*Term))
		case *types.Array:
			return m.IxConst(tt.Len())
		case *types.Pointer:
			return m.IxConst(tt.Elem().Underlying().(*types.Array).Len())
		case *types.Map:
			u.noteHavoc("len(map)")
			r := u.freshOfType("maplen", tInt, st.guard)
			u.assume(st.guard, m.IxLe(m.IxConst(0), r))
			return r
		}
		if isTypeParam(at) {
			return m.SeqLen(args[0].(*Term))
		}
	case "min", "max":
		acc := args[0].(*Term)
		t := c.Args[0].Type()
		for _, a := range args[1:] {
			at := a.(*Term)
			var less *Term
			if b.Name() == "min" {
				less = m.Compare(token.LSS, at, acc, t)
			} else {
				less = m.Compare(token.GTR, at, acc, t)
			}
			acc = tb.Ite(less, at, acc)
		}
		return acc
	case "append":
		return u.appendOp(fr, st, c, args, pos)
	case "copy":
		return u.copyOp(fr, st, c, args, pos)
	case "clear":
		u.noteHavoc("clear")
		return u.havocCall(st, c, "clear")
	case "print", "println":
		return Tuple{}
	case "delete":
		u.noteHavoc("delete")
		return Tuple{}
	}
	panic(u.errf("unsupported builtin %s", b.Name()))
}

// appendOp models append(s, t...) exactly (in place when capacity suffices,
// otherwise a fresh backing array holding the old contents).
func (u *Unit) appendOp(fr *Frame, st *State, c *ssa.CallCommon, args []Val, pos token.Pos) Val {
	m := u.m
	tb := m.tb
	s := args[0].(*Term)
	et := c.Args[0].Type().Underlying().(*types.Slice).Elem()
	// source as (array, off, len)
	var srcArr, srcOff, srcLen *Term
	t := args[1].(*Term)
	if t.sort == SSlice {
		srcArr = u.elemsArr(st, m.SliceRef(t), et)
		srcOff, srcLen = m.SliceOff(t), m.SliceLen(t)
	} else { // string
		srcArr, srcOff, srcLen = m.SeqArr(t), m.SeqOff(t), m.SeqLen(t)
	}
	n0 := m.SliceLen(s)
	n1 := m.IxAdd(n0, srcLen)
	fits := m.IxLe(n1, m.SliceCap(s))
	oldArr := u.elemsArr(st, m.SliceRef(s), et)
	ix := m.ixSort()
	es := m.sortOf(et)

	constLen := int64(-1)
	if v, ok := m.constVal(srcLen); ok && v.IsInt64() && v.Int64() <= 8 {
		constLen = v.Int64()
	}
	// writeNew stores the appended elements at base+n0.. into a
	writeNew := func(a *Term, base *Term) *Term {
		for j := int64(0); j < constLen; j++ {
			a = tb.Store(a, m.IxAdd(m.IxAdd(base, n0), m.IxConst(j)), tb.Select(srcArr, m.IxAdd(srcOff, m.IxConst(j))))
		}
		return a
	}
	// contents after the append, as seen from the destination start `base`;
	// fromOff == nil: in place (other indices keep their old value);
	// otherwise the old elements are copied from from[fromOff..] to a[base..].
	mkArr := func(hint string, base *Term, from *Term, fromOff *Term) *Term {
		if constLen >= 0 && fromOff == nil {
			return writeNew(from, base)
		}
		a := tb.Fresh(hint, SArr(ix, es))
		j := tb.BoundVar("j", ix)
		inOld := tb.And(m.IxLe(base, j), m.IxLt(j, m.IxAdd(base, n0)))
		if constLen >= 0 {
			// copied prefix by quantifier, new elements by explicit stores
			u.assume(st.guard, tb.Forall([]*Term{j}, tb.Implies(inOld, tb.Eq(tb.Select(a, j), tb.Select(from, m.IxAdd(fromOff, m.IxSub(j, base)))))))
			return writeNew(a, base)
		}
		inNew := tb.And(m.IxLe(m.IxAdd(base, n0), j), m.IxLt(j, m.IxAdd(base, n1)))
		newVal := tb.Select(srcArr, m.IxAdd(srcOff, m.IxSub(j, m.IxAdd(base, n0))))
		var oldVal *Term
		if fromOff == nil {
			oldVal = tb.Select(from, j)
		} else {
			oldVal = tb.Select(from, m.IxAdd(fromOff, m.IxSub(j, base)))
		}
		body := tb.Eq(tb.Select(a, j), tb.Ite(inNew, newVal, oldVal))
		if fromOff != nil {
			body = tb.Implies(tb.Or(inNew, inOld), body)
		}
		u.assume(st.guard, tb.Forall([]*Term{j}, body))
		// the same fact about the appended elements, indexed by the source position
		// (so that facts quantified over the source's indices can be transferred)
		i := tb.BoundVar("i", ix)
		u.assume(st.guard, tb.Forall([]*Term{i}, tb.Implies(tb.And(m.IxLe(m.IxConst(0), i), m.IxLt(i, srcLen)),
			tb.Eq(tb.Select(a, m.ElemIx(base, m.IxAdd(n0, i))), tb.Select(srcArr, m.ElemIx(srcOff, i))))))
		return a
	}
	inPlaceArr := mkArr("app_inplace", m.SliceOff(s), oldArr, nil)
	newRef := u.freshRef(st, "append")
	newCap := tb.Fresh("appcap", ix)
	u.assume(st.guard, tb.And(m.IxLe(n1, newCap), m.IxLt(newCap, m.IxConst(1<<60))))
	reallocArr := mkArr("app_realloc", m.IxConst(0), oldArr, m.SliceOff(s))
	{
		// the Go runtime zeroes the spare capacity of a grown slice (growslice clears
		// [newlen, cap) for pointer-free element types; other memory is allocated zeroed)
		j := tb.BoundVar("j", ix)
		u.assume(st.guard, tb.Forall([]*Term{j}, tb.Implies(tb.And(m.IxLe(n1, j), m.IxLt(j, newCap)), tb.Eq(tb.Select(reallocArr, j), m.Zero(et)))))
	}
	k, srt := u.elemsKey(et)
	E := u.heapGet(st, k, srt)
	E2 := tb.Ite(fits, tb.Store(E, m.SliceRef(s), inPlaceArr), tb.Store(E, newRef, reallocArr))
	u.heapSet(st, k, E2)
	res := tb.Ite(fits,
		m.MkSlice(m.SliceRef(s), m.SliceOff(s), n1, m.SliceCap(s)),
		m.MkSlice(newRef, m.IxConst(0), n1, newCap))
	if m.mode == ModeInt {
		u.assume(st.guard, m.IxLt(n1, m.IxConst(1<<62)))
	}
	// derived fact stated directly on the result (helps instantiation): the old
	// elements are still there, whichever branch (in place / reallocated) was taken
	{
		j := tb.BoundVar("j", ix)
		resArr := tb.Select(E2, m.SliceRef(res))
		keep := tb.Eq(tb.Select(resArr, m.ElemIx(m.SliceOff(res), j)), tb.Select(oldArr, m.ElemIx(m.SliceOff(s), j)))
		u.assume(st.guard, tb.Forall([]*Term{j}, tb.Implies(tb.And(m.IxLe(m.IxConst(0), j), m.IxLt(j, n0)), keep)))
	}
	return res
}

func (u *Unit) copyOp(fr *Frame, st *State, c *ssa.CallCommon, args []Val, pos token.Pos) Val {
	m := u.m
	tb := m.tb
	d := args[0].(*Term)
	et := c.Args[0].Type().Underlying().(*types.Slice).Elem()
	var srcArr, srcOff, srcLen *Term
	t := args[1].(*Term)
	if t.sort == SSlice {
		srcArr = u.elemsArr(st, m.SliceRef(t), et)
		srcOff, srcLen = m.SliceOff(t), m.SliceLen(t)
	} else {
		srcArr, srcOff, srcLen = m.SeqArr(t), m.SeqOff(t), m.SeqLen(t)
	}
	n := tb.Ite(m.IxLt(srcLen, m.SliceLen(d)), srcLen, m.SliceLen(d))
	oldArr := u.elemsArr(st, m.SliceRef(d), et)
	ix := m.ixSort()
	a := tb.Fresh("copied", SArr(ix, m.sortOf(et)))
	j := tb.BoundVar("j", ix)
	in := tb.And(m.IxLe(m.SliceOff(d), j), m.IxLt(j, m.IxAdd(m.SliceOff(d), n)))
	body := tb.Eq(tb.Select(a, j), tb.Ite(in, tb.Select(srcArr, m.IxAdd(srcOff, m.IxSub(j, m.SliceOff(d)))), tb.Select(oldArr, j)))
	u.assume(st.guard, tb.Forall([]*Term{j}, body))
	u.setElemsArr(st, m.SliceRef(d), et, a)
	return n
}

// ------------------------------------------------------------ modular calls

// calleeEnv builds the environment in which a callee contract is evaluated.
func (u *Unit) calleeParams(con *Contract, fn *ssa.Function) (names []string, typs []types.Type, rnames []string, rtyps []types.Type) {
	ci := u.eng.checked[con]
	return ci.params, ci.ptypes, ci.results, ci.rtypes
}

func (u *Unit) applyContract(fr *Frame, st *State, con *Contract, fn *ssa.Function, args []Val, pos token.Pos, name string) Val {
	ci := u.eng.checked[con]
	if ci == nil {
		panic(u.errf("contract %s was not type-checked", con.name))
	}
	u.calleesUsed[name] = con.mode
	env := &Env{u: u, st: st, vars: map[string]Val{}, fr: nil, info: ci.info}
	if len(ci.params) != len(args) {
		panic(u.errf("call of %s: %d params, %d args", name, len(ci.params), len(args)))
	}
	for i, p := range ci.params {
		env.vars[p] = u.adaptArg(st, args[i], ci.ptypes[i])
	}
	// preconditions
	for i, cl := range con.get("requires") {
		g := u.evalIn(env, cl)
		lbl := cl.label
		if lbl == "" {
			lbl = fmt.Sprint(i)
		}
		u.oblige("pre", sanitizeLabel(name)+"-"+lbl, st, g, pos, "precondition of "+name+": "+cl.text)
	}
	// frame: havoc what the callee may modify
	pre := st.clone()
	u.havocModifies(env, st, con, name)
	for _, rt := range ci.rtypes {
		if mayHoldRefs(rt, 0) {
			// the callee may have allocated what it returns
			before := u.allocSet(st)
			after := u.m.tb.Fresh("AL_"+sanitizeLabel(name), SArr(SInt, SBool))
			u.heapSet(st, allocHeapKey, after)
			u.allocGrows(st.guard, before, after)
			break
		}
	}
	// results
	penv := &Env{u: u, st: st, vars: map[string]Val{}, old: &Env{u: u, st: pre, vars: env.vars}, assuming: true}
	for k, v := range env.vars {
		penv.vars[k] = v
	}
	var results []Val
	for i, r := range ci.results {
		v := u.freshVal(st, ci.rtypes[i], "r_"+sanitizeLabel(name)+"_"+r)
		results = append(results, v)
		penv.vars[r] = v
	}
	if len(results) == 1 {
		penv.vars["result"] = results[0]
	}
	for _, cl := range con.get("ensures") {
		u.assume(st.guard, u.evalIn(penv, cl))
	}
	// postconditions that are assumed at call sites but are not obligations of the
	// callee (physical bounds such as "a stream is shorter than 2^61 bytes"); every
	// use is reported in the evidence file
	for _, cl := range con.get("ensures-assumed") {
		u.assume(st.guard, u.evalIn(penv, cl))
		u.noteHavoc("assumed postcondition of " + name + ": " + cl.text)
	}
	switch len(results) {
	case 0:
		return Tuple{}
	case 1:
		return results[0]
	}
	return Tuple(results)
}

func mayHoldRefs(t types.Type, depth int) bool {
	if depth > 4 {
		return true
	}
	switch tt := t.Underlying().(type) {
	case *types.Basic:
		return false
	case *types.Struct:
		for i := 0; i < tt.NumFields(); i++ {
			if mayHoldRefs(tt.Field(i).Type(), depth+1) {
				return true
			}
		}
		return false
	case *types.Array:
		return mayHoldRefs(tt.Elem(), depth+1)
	case *types.Interface:
		return false // interface payloads are opaque
	}
	return true
}

func sanitizeLabel(s string) string {
	out := []byte{}
	for i := 0; i < len(s); i++ {
		c := s[i]
		if c >= 'a' && c <= 'z' || c >= 'A' && c <= 'Z' || c >= '0' && c <= '9' || c == '.' || c == '$' {
			out = append(out, c)
		}
	}
	return string(out)
}

// adaptArg converts an argument to the representation the contract expects.
func (u *Unit) adaptArg(st *State, a Val, t types.Type) Val {
	if ao, ok := a.(*arrayObj); ok {
		_ = ao
	}
	return a
}

// havocModifies interprets the `modifies` clauses of a callee.
func (u *Unit) havocModifies(env *Env, st *State, con *Contract, name string) {
	// every location of the frame is evaluated in the state before the call (a field
	// listed together with the elements it points to must not be re-read after it
	// has been havocked)
	pre := *env
	pre.st = st.clone()
	env = &pre
	for _, cl := range con.get("modifies") {
		ci := u.eng.checked[con]
		for _, e := range ci.modifies[cl] {
			u.havocLoc(env, st, e, name)
		}
	}
}

func (u *Unit) havocLoc(env *Env, st *State, e ast.Expr, name string) {
	m := u.m
	tb := m.tb
	e = ast.Unparen(e)
	if id, ok := e.(*ast.Ident); ok && id.Name == "everything" {
		allocBefore := u.allocSet(st)
		u.epochs++
		st.epoch = u.epochs
		st.heap = map[string]*Term{}
		u.allocGrows(st.guard, allocBefore, u.allocSet(st))
		return
	}
	switch x := e.(type) {
	case *ast.StarExpr:
		p := env.eval(x.X)
		pt := env.typeOf(x.X).Underlying().(*types.Pointer).Elem()
		switch pv := p.(type) {
		case *Term:
			u.havocStruct(st, pv, pt, "mod_"+sanitizeLabel(name))
		case *Ptr:
			if isStructType(pt) {
				// local struct passed by address
				u.store(st, pv, u.freshOfType("mod_"+sanitizeLabel(name), pt, st.guard))
			} else {
				u.store(st, pv, u.freshOfType("mod_"+sanitizeLabel(name), pt, st.guard))
			}
		case nil:
		default:
			panic(u.errf("modifies *%T", p))
		}
	case *ast.SelectorExpr:
		var base Val
		if ref, ok := env.evalLoc(x.X); ok {
			base = ref
		} else {
			base = env.eval(x.X)
		}
		bt := env.typeOf(x.X)
		if pt, ok := bt.Underlying().(*types.Pointer); ok {
			bt = pt.Elem()
		}
		dt := m.structInfo(bt)
		fi := fieldIndex(bt, x.Sel.Name)
		ft := dt.fields[fi].typ
		switch b := base.(type) {
		case *Term:
			if isStructType(ft) {
				u.havocStruct(st, u.subRef(dt, fi, b), ft, "mod_"+sanitizeLabel(name))
			} else {
				u.storeField(st, b, dt, fi, u.freshOfType("mod_"+sanitizeLabel(name)+"_"+x.Sel.Name, ft, st.guard))
			}
		case *Ptr:
			q := b.extend(pathElem{field: fi}, ft)
			u.store(st, q, u.freshOfType("mod_"+sanitizeLabel(name)+"_"+x.Sel.Name, ft, st.guard))
		default:
			panic(u.errf("modifies field of %T", base))
		}
	case *ast.SliceExpr:
		// elements of a slice in [lo, hi) (defaults 0, len)
		s := env.eval(x.X).(*Term)
		et := env.typeOf(x.X).Underlying().(*types.Slice).Elem()
		lo := m.IxConst(0)
		hi := m.SliceLen(s)
		if x.Low != nil {
			lo = env.eval(x.Low).(*Term)
		}
		if x.High != nil {
			hi = env.eval(x.High).(*Term)
		}
		old := u.elemsArr(st, m.SliceRef(s), et)
		a := tb.Fresh("mod_"+sanitizeLabel(name)+"_elems", old.sort)
		j := tb.BoundVar("j", m.ixSort())
		in := tb.And(m.IxLe(m.IxAdd(m.SliceOff(s), lo), j), m.IxLt(j, m.IxAdd(m.SliceOff(s), hi)))
		u.assume(st.guard, tb.Forall([]*Term{j}, tb.Implies(tb.Not(in), tb.Eq(tb.Select(a, j), tb.Select(old, j)))))
		if ii, ok := intTypeInfo(et); ok && m.mode == ModeInt {
			u.assume(st.guard, tb.Forall([]*Term{j}, tb.And(tb.Le(tb.IntBig(ii.min()), tb.Select(a, j)), tb.Le(tb.Select(a, j), tb.IntBig(ii.max())))))
		}
		u.setElemsArr(st, m.SliceRef(s), et, a)
	default:
		panic(u.errf("unsupported modifies expression %T", e))
	}
}

func fieldIndex(t types.Type, name string) int {
	st := t.Underlying().(*types.Struct)
	for i := 0; i < st.NumFields(); i++ {
		if st.Field(i).Name() == name {
			return i
		}
	}
	panic("no field " + name + " in " + t.String())
}

// callMods: what a call inside a loop may modify (for the loop's havoc set).
func (u *Unit) callMods(fr *Frame, li *loopInfo, c *ssa.CallCommon, depth int, scan func(*ssa.Function, []*ssa.BasicBlock, int)) {
	markAllocArgs := func() {
		for _, a := range c.Args {
			for {
				switch x := a.(type) {
				case *ssa.FieldAddr:
					a = x.X
					continue
				case *ssa.IndexAddr:
					a = x.X
					continue
				}
				break
			}
			if al, ok := a.(*ssa.Alloc); ok {
				li.modCells[al] = true
			}
		}
	}
	if c.IsInvoke() {
		name := types.TypeString(c.Value.Type(), func(p *types.Package) string { return p.Name() }) + "." + c.Method.Name()
		if con := u.eng.externs[name]; con != nil {
			u.contractMods(li, con)
			markAllocArgs()
			return
		}
		if con := u.eng.externs["method:"+c.Method.Name()]; con != nil && strings.HasPrefix(name, "interface{") {
			u.contractMods(li, con)
			markAllocArgs()
			return
		}
		li.modAll = true
		markAllocArgs()
		return
	}
	if uo, ok := c.Value.(*ssa.UnOp); ok {
		if g, ok := uo.X.(*ssa.Global); ok && g.Pkg != nil {
			if con := u.eng.externs[g.Pkg.Pkg.Name()+"."+g.Name()]; con != nil {
				u.contractMods(li, con)
				markAllocArgs()
				return
			}
		}
	}
	switch f := c.Value.(type) {
	case *ssa.Builtin:
		switch f.Name() {
		case "append", "copy":
			et := c.Args[0].Type().Underlying().(*types.Slice).Elem()
			k, srt := u.elemsKey(et)
			li.modHeap[k] = srt
		case "clear", "delete":
			li.modAll = true
		}
		return
	case *ssa.Function:
		orig := f
		if f.Origin() != nil {
			orig = f.Origin()
		}
		name := u.eng.funcName(orig)
		con := u.eng.contracts[name]
		if con == nil {
			con = u.eng.externs[name]
		}
		switch {
		case con != nil && con.kind == "spec":
			return
		case con != nil && con.inline:
			if depth < 6 {
				scan(f, f.Blocks, depth+1)
			}
			markAllocArgs()
			return
		case con != nil:
			u.contractMods(li, con)
			markAllocArgs()
			return
		}
		if os.Getenv("GOVC_DEBUG") != "" {
			fmt.Fprintf(os.Stderr, "modAll: loop %d of %s calls uncontracted %s\n", li.ordinal, fr.fn.Name(), name)
		}
		li.modAll = true
		markAllocArgs()
		return
	case *ssa.MakeClosure:
		fn := f.Fn.(*ssa.Function)
		if depth < 6 {
			scan(fn, fn.Blocks, depth+1)
		}
		for _, b := range f.Bindings {
			if al, ok := b.(*ssa.Alloc); ok {
				_ = al
			}
		}
		return
	}
	// call through a function value held in a cell: find closures assigned in this function
	found := false
	for _, b := range fr.fn.Blocks {
		for _, ins := range b.Instrs {
			if mc, ok := ins.(*ssa.MakeClosure); ok {
				fn := mc.Fn.(*ssa.Function)
				if types.Identical(fn.Signature, c.Signature()) {
					found = true
					if depth < 6 {
						scan(fn, fn.Blocks, depth+1)
					}
				}
			}
		}
	}
	for _, af := range fr.fn.AnonFuncs {
		if len(af.FreeVars) == 0 && types.Identical(af.Signature, c.Signature()) {
			found = true
			if depth < 6 {
				scan(af, af.Blocks, depth+1)
			}
		}
	}
	if !found {
		if os.Getenv("GOVC_DEBUG") != "" {
			fmt.Fprintf(os.Stderr, "modAll: loop %d of %s calls through unknown function value %s (%T)\n", li.ordinal, fr.fn.Name(), c.Value, c.Value)
		}
		li.modAll = true
	}
	markAllocArgs()
}

func (u *Unit) contractMods(li *loopInfo, con *Contract) {
	ci := u.eng.checked[con]
	for _, cl := range con.get("modifies") {
		for _, e := range ci.modifies[cl] {
			e = ast.Unparen(e)
			if id, ok := e.(*ast.Ident); ok && id.Name == "everything" {
				li.modAll = true
				continue
			}
			switch x := e.(type) {
			case *ast.StarExpr:
				pt := ci.info.TypeOf(x.X).Underlying().(*types.Pointer).Elem()
				if isStructType(pt) {
					u.markStructKeys(li, pt)
				} else {
					for c := range u.ghosts {
						li.modCells[c] = true
					}
				}
			case *ast.SelectorExpr:
				bt := ci.info.TypeOf(x.X)
				if pt, ok := bt.Underlying().(*types.Pointer); ok {
					bt = pt.Elem()
				}
				u.markFieldKeys(li, bt, fieldIndex(bt, x.Sel.Name))
			case *ast.SliceExpr:
				et := ci.info.TypeOf(x.X).Underlying().(*types.Slice).Elem()
				k, srt := u.elemsKey(et)
				li.modHeap[k] = srt
			}
		}
	}
}

// mathBuiltin: ghost helpers with a fixed mathematical meaning (int theory).
//   bigc("digits")   an integer constant too large for Go's types
//   mathWrap64(x)    x mod 2^64 as a uint64
func (u *Unit) mathBuiltin(name string, c *ssa.CallCommon, args []Val) (Val, bool) {
	switch {
	case strings.HasSuffix(name, ".bigc"):
		k, ok := c.Args[0].(*ssa.Const)
		if !ok {
			panic(u.errf("bigc needs a string literal"))
		}
		return u.bigConst(constant.StringVal(k.Value)), true
	case strings.HasSuffix(name, ".mathWrap64"):
		return u.mathWrap64(args[0].(*Term)), true
	}
	return nil, false
}

func (u *Unit) bigConst(s string) *Term {
	if u.m.mode != ModeInt {
		panic(u.errf("bigc is only available in theory int"))
	}
	v, ok := new(big.Int).SetString(s, 10)
	if !ok {
		panic(u.errf("bigc: bad literal %q", s))
	}
	return u.m.tb.IntBig(v)
}

func (u *Unit) mathWrap64(x *Term) *Term {
	if u.m.mode != ModeInt {
		panic(u.errf("mathWrap64 is only available in theory int"))
	}
	return u.m.tb.App("mod", SInt, x, u.m.tb.IntBig(pow2(64)))
}

// autoRangeInv: for `for i, x := range slice` loops go/ssa keeps a hidden index
// cell that cannot be named in a contract; its invariant -1 <= idx < len is
// generated (and checked like any other invariant).
func (u *Unit) autoRangeInv(fr *Frame, li *loopInfo, st *State) *Term {
	ins := li.header.Instrs
	if len(ins) < 4 {
		return nil
	}
	ld, ok := ins[0].(*ssa.UnOp)
	if !ok || ld.Op != token.MUL {
		return nil
	}
	al, ok := ld.X.(*ssa.Alloc)
	if !ok || al.Comment != "rangeindex" {
		return nil
	}
	var cmp *ssa.BinOp
	for _, in := range ins {
		if b, ok := in.(*ssa.BinOp); ok && b.Op == token.LSS {
			cmp = b
		}
	}
	if cmp == nil {
		return nil
	}
	lenV, ok := fr.vals[cmp.Y]
	if !ok {
		if c, isConst := cmp.Y.(*ssa.Const); isConst {
			lenV = u.constVal(c)
		} else {
			return nil
		}
	}
	idx, ok := st.cells[al].(*Term)
	if !ok {
		return nil
	}
	m := u.m
	return m.tb.And(m.IxLe(m.IxConst(-1), idx), m.IxLt(idx, m.tb.Ite(m.IxLt(lenV.(*Term), m.IxConst(0)), m.IxConst(0), lenV.(*Term))))
}

// loopFrameKeys: heap keys written by the loop for which the top-level
// function's frame condition is maintained as an invariant.
func (u *Unit) loopFrameKeys(fr *Frame, li *loopInfo) []string {
	if !fr.top || li.modAll || u.con == nil || !u.frame().active || u.frame().everything || u.con.frameAssumed != "" {
		return nil
	}
	var ks []string
	for k := range li.modHeap {
		if k != allocHeapKey {
			ks = append(ks, k)
		}
	}
	sort.Strings(ks)
	return ks
}
