package main

// SMT term DAG with hash-consing, sort tracking and a printer that shares
// sub-terms through top-level define-funs.

import (
	"fmt"
	"math/big"
	"sort"
	"strings"
)

// Sorts are represented by their SMT-LIB spelling.
type Sort = string

const (
	SBool  Sort = "Bool"
	SInt   Sort = "Int"
	SSlice Sort = "Slice"
	SIface Sort = "Iface"
	SF64   Sort = "F64"
)

func SBV(w int) Sort { return fmt.Sprintf("(_ BitVec %d)", w) }
func SArr(i, e Sort) Sort {
	return "(Array " + i + " " + e + ")"
}

type Term struct {
	op    string
	args  []*Term
	sort  Sort
	id    int
	bound bool // contains a bound variable (must not be hoisted)
	// for quantifiers: op = "forall"/"exists", args[0] = body, vars holds binders
	vars []*Term
}

type TB struct { // term builder
	tab   map[string]*Term
	next  int
	decls map[string]Sort // free constants: name -> sort
	fresh map[string]int
}

func newTB() *TB {
	return &TB{tab: map[string]*Term{}, decls: map[string]Sort{}, fresh: map[string]int{}}
}

func (tb *TB) mk(op string, sort Sort, args ...*Term) *Term {
	var sb strings.Builder
	sb.WriteString(op)
	sb.WriteByte('|')
	sb.WriteString(sort)
	bound := false
	for _, a := range args {
		if a == nil {
			panic("nil term arg for op " + op)
		}
		fmt.Fprintf(&sb, ",%d", a.id)
		bound = bound || a.bound
	}
	k := sb.String()
	if t, ok := tb.tab[k]; ok {
		return t
	}
	tb.next++
	t := &Term{op: op, args: args, sort: sort, id: tb.next, bound: bound}
	tb.tab[k] = t
	return t
}

// Const declares (once) a free constant.
func (tb *TB) Const(name string, sort Sort) *Term {
	if s, ok := tb.decls[name]; ok && s != sort {
		panic(fmt.Sprintf("constant %s redeclared with sort %s (was %s)", name, sort, s))
	}
	tb.decls[name] = sort
	return tb.mk(name, sort)
}

// Fresh makes a new constant with a unique name derived from hint.
func (tb *TB) Fresh(hint string, sort Sort) *Term {
	hint = sanitize(hint)
	tb.fresh[hint]++
	return tb.Const(fmt.Sprintf("%s!%d", hint, tb.fresh[hint]), sort)
}

func (tb *TB) BoundVar(name string, sort Sort) *Term {
	tb.fresh["bv_"+name]++
	t := tb.mk(fmt.Sprintf("%s?%d", sanitize(name), tb.fresh["bv_"+name]), sort)
	t.bound = true
	return t
}

func sanitize(s string) string {
	var sb strings.Builder
	for _, r := range s {
		switch {
		case r >= 'a' && r <= 'z', r >= 'A' && r <= 'Z', r >= '0' && r <= '9', r == '_', r == '.', r == '$':
			sb.WriteRune(r)
		default:
			sb.WriteByte('_')
		}
	}
	if sb.Len() == 0 {
		return "x"
	}
	return sb.String()
}

func (tb *TB) True() *Term  { return tb.mk("true", SBool) }
func (tb *TB) False() *Term { return tb.mk("false", SBool) }
func (tb *TB) Bool(b bool) *Term {
	if b {
		return tb.True()
	}
	return tb.False()
}

func (tb *TB) Int(v int64) *Term { return tb.IntBig(big.NewInt(v)) }
func (tb *TB) IntBig(v *big.Int) *Term {
	if v.Sign() < 0 {
		return tb.mk("(- "+new(big.Int).Neg(v).String()+")", SInt)
	}
	return tb.mk(v.String(), SInt)
}

func (tb *TB) BV(v *big.Int, w int) *Term {
	m := new(big.Int).Lsh(big.NewInt(1), uint(w))
	x := new(big.Int).Mod(v, m)
	return tb.mk(fmt.Sprintf("(_ bv%s %d)", x.String(), w), SBV(w))
}

func isTrue(t *Term) bool  { return t.op == "true" && len(t.args) == 0 }
func isFalse(t *Term) bool { return t.op == "false" && len(t.args) == 0 }

func (t *Term) intLit() (*big.Int, bool) {
	if t.sort != SInt || len(t.args) != 0 {
		return nil, false
	}
	s := t.op
	neg := false
	if strings.HasPrefix(s, "(- ") {
		neg = true
		s = strings.TrimSuffix(strings.TrimPrefix(s, "(- "), ")")
	}
	v, ok := new(big.Int).SetString(s, 10)
	if !ok {
		return nil, false
	}
	if neg {
		v.Neg(v)
	}
	return v, true
}

func (tb *TB) Not(a *Term) *Term {
	if isTrue(a) {
		return tb.False()
	}
	if isFalse(a) {
		return tb.True()
	}
	if a.op == "not" {
		return a.args[0]
	}
	return tb.mk("not", SBool, a)
}

func (tb *TB) And(as ...*Term) *Term {
	var out []*Term
	seen := map[int]bool{}
	for _, a := range as {
		if isTrue(a) {
			continue
		}
		if isFalse(a) {
			return tb.False()
		}
		if a.op == "and" {
			for _, x := range a.args {
				if !seen[x.id] {
					seen[x.id] = true
					out = append(out, x)
				}
			}
			continue
		}
		if !seen[a.id] {
			seen[a.id] = true
			out = append(out, a)
		}
	}
	switch len(out) {
	case 0:
		return tb.True()
	case 1:
		return out[0]
	}
	return tb.mk("and", SBool, out...)
}

func (tb *TB) Or(as ...*Term) *Term {
	var out []*Term
	seen := map[int]bool{}
	for _, a := range as {
		if isFalse(a) {
			continue
		}
		if isTrue(a) {
			return tb.True()
		}
		if a.op == "or" {
			for _, x := range a.args {
				if !seen[x.id] {
					seen[x.id] = true
					out = append(out, x)
				}
			}
			continue
		}
		if !seen[a.id] {
			seen[a.id] = true
			out = append(out, a)
		}
	}
	switch len(out) {
	case 0:
		return tb.False()
	case 1:
		return out[0]
	}
	return tb.mk("or", SBool, out...)
}

func (tb *TB) Implies(a, b *Term) *Term {
	if isTrue(a) {
		return b
	}
	if isFalse(a) || isTrue(b) {
		return tb.True()
	}
	return tb.mk("=>", SBool, a, b)
}

func (tb *TB) Eq(a, b *Term) *Term {
	if a == b {
		return tb.True()
	}
	if a.sort != b.sort {
		panic(fmt.Sprintf("Eq sort mismatch: %s : %s vs %s : %s", tb.Show(a), a.sort, tb.Show(b), b.sort))
	}
	if a.sort == SInt {
		if x, ok := a.intLit(); ok {
			if y, ok := b.intLit(); ok {
				return tb.Bool(x.Cmp(y) == 0)
			}
		}
	}
	if a.sort == SBool {
		if isTrue(a) {
			return b
		}
		if isTrue(b) {
			return a
		}
		if isFalse(a) {
			return tb.Not(b)
		}
		if isFalse(b) {
			return tb.Not(a)
		}
	}
	if a.id > b.id {
		a, b = b, a
	}
	return tb.mk("=", SBool, a, b)
}

func (tb *TB) Ite(c, a, b *Term) *Term {
	if isTrue(c) {
		return a
	}
	if isFalse(c) {
		return b
	}
	if a == b {
		return a
	}
	if a.sort != b.sort {
		panic(fmt.Sprintf("Ite sort mismatch: %s vs %s (%s | %s)", a.sort, b.sort, tb.Show(a), tb.Show(b)))
	}
	if a.sort == SBool {
		if isTrue(a) && isFalse(b) {
			return c
		}
		if isFalse(a) && isTrue(b) {
			return tb.Not(c)
		}
	}
	return tb.mk("ite", a.sort, c, a, b)
}

// App applies an SMT operator / function symbol.
func (tb *TB) App(op string, sort Sort, args ...*Term) *Term {
	return tb.mk(op, sort, args...)
}

// Integer arithmetic helpers with constant folding.
func (tb *TB) Add(a, b *Term) *Term {
	if x, ok := a.intLit(); ok {
		if y, ok := b.intLit(); ok {
			return tb.IntBig(new(big.Int).Add(x, y))
		}
		if x.Sign() == 0 {
			return b
		}
	}
	if y, ok := b.intLit(); ok {
		if y.Sign() == 0 {
			return a
		}
		// (x + c1) + c2 = x + (c1+c2)
		if a.op == "+" && len(a.args) == 2 {
			if c1, ok := a.args[1].intLit(); ok {
				return tb.Add(a.args[0], tb.IntBig(new(big.Int).Add(c1, y)))
			}
		}
		if a.op == "-" && len(a.args) == 2 {
			if c1, ok := a.args[1].intLit(); ok {
				return tb.Add(a.args[0], tb.IntBig(new(big.Int).Sub(y, c1)))
			}
		}
	}
	if x, ok := a.intLit(); ok {
		if _, isLit := b.intLit(); !isLit {
			return tb.Add(b, a) // literals to the right
		}
		_ = x
	}
	return tb.mk("+", SInt, a, b)
}
func (tb *TB) Sub(a, b *Term) *Term {
	if x, ok := a.intLit(); ok {
		if y, ok := b.intLit(); ok {
			return tb.IntBig(new(big.Int).Sub(x, y))
		}
	}
	if y, ok := b.intLit(); ok {
		if y.Sign() == 0 {
			return a
		}
		return tb.Add(a, tb.IntBig(new(big.Int).Neg(y))) // x - c = x + (-c)
	}
	if a == b {
		return tb.Int(0)
	}
	// (x + c) - x = c
	if a.op == "+" && len(a.args) == 2 && a.args[0] == b {
		return a.args[1]
	}
	return tb.mk("-", SInt, a, b)
}
func (tb *TB) Mul(a, b *Term) *Term {
	if x, ok := a.intLit(); ok {
		if y, ok := b.intLit(); ok {
			return tb.IntBig(new(big.Int).Mul(x, y))
		}
		if x.Cmp(big.NewInt(1)) == 0 {
			return b
		}
	}
	if y, ok := b.intLit(); ok && y.Cmp(big.NewInt(1)) == 0 {
		return a
	}
	return tb.mk("*", SInt, a, b)
}
func (tb *TB) Le(a, b *Term) *Term { return tb.cmp("<=", a, b) }
func (tb *TB) Lt(a, b *Term) *Term { return tb.cmp("<", a, b) }
func (tb *TB) Ge(a, b *Term) *Term { return tb.cmp("<=", b, a) }
func (tb *TB) Gt(a, b *Term) *Term { return tb.cmp("<", b, a) }
func (tb *TB) cmp(op string, a, b *Term) *Term {
	if x, ok := a.intLit(); ok {
		if y, ok := b.intLit(); ok {
			c := x.Cmp(y)
			if op == "<=" {
				return tb.Bool(c <= 0)
			}
			return tb.Bool(c < 0)
		}
	}
	return tb.mk(op, SBool, a, b)
}

func (tb *TB) Select(arr, idx *Term) *Term {
	es := arrElemSort(arr.sort)
	// read-over-write simplification for syntactically equal index
	if arr.op == "store" && arr.args[1] == idx {
		return arr.args[2]
	}
	return tb.mk("select", es, arr, idx)
}
func (tb *TB) Store(arr, idx, v *Term) *Term {
	if arrElemSort(arr.sort) != v.sort {
		panic(fmt.Sprintf("Store sort mismatch: array %s value %s", arr.sort, v.sort))
	}
	return tb.mk("store", arr.sort, arr, idx, v)
}

// arrElemSort parses "(Array I E)" and returns E.
func arrElemSort(s Sort) Sort {
	_, e := splitArr(s)
	return e
}
func splitArr(s Sort) (Sort, Sort) {
	if !strings.HasPrefix(s, "(Array ") {
		panic("not an array sort: " + s)
	}
	body := s[len("(Array ") : len(s)-1]
	// first sort token
	depth := 0
	for i, c := range body {
		switch c {
		case '(':
			depth++
		case ')':
			depth--
		case ' ':
			if depth == 0 {
				return body[:i], body[i+1:]
			}
		}
	}
	panic("bad array sort " + s)
}

func (tb *TB) Forall(vars []*Term, body *Term) *Term { return tb.quant("forall", vars, body) }
func (tb *TB) Exists(vars []*Term, body *Term) *Term { return tb.quant("exists", vars, body) }
func (tb *TB) quant(q string, vars []*Term, body *Term) *Term {
	if isTrue(body) || isFalse(body) {
		return body
	}
	var sb strings.Builder
	sb.WriteString(q)
	for _, v := range vars {
		fmt.Fprintf(&sb, " %d", v.id)
	}
	fmt.Fprintf(&sb, "|%d", body.id)
	k := sb.String()
	if t, ok := tb.tab[k]; ok {
		return t
	}
	tb.next++
	t := &Term{op: q, args: []*Term{body}, sort: SBool, id: tb.next, vars: vars}
	// bound stays true if the body mentions binders of an enclosing quantifier
	t.bound = hasFreeBound(body, vars)
	tb.tab[k] = t
	return t
}

func hasFreeBound(t *Term, binders []*Term) bool {
	if !t.bound {
		return false
	}
	bs := map[int]bool{}
	for _, b := range binders {
		bs[b.id] = true
	}
	seen := map[int]bool{}
	var rec func(t *Term, bs map[int]bool) bool
	rec = func(t *Term, bs map[int]bool) bool {
		if !t.bound || seen[t.id] {
			return false
		}
		if len(t.args) == 0 && t.vars == nil {
			return !bs[t.id]
		}
		if t.vars != nil {
			nb := map[int]bool{}
			for k := range bs {
				nb[k] = true
			}
			for _, v := range t.vars {
				nb[v.id] = true
			}
			return rec(t.args[0], nb)
		}
		seen[t.id] = true
		for _, a := range t.args {
			if rec(a, bs) {
				return true
			}
		}
		return false
	}
	return rec(t, bs)
}

// ---------------------------------------------------------------- printing

// Show prints a term fully inline (debugging, small terms).
func (tb *TB) Show(t *Term) string {
	var sb strings.Builder
	printTerm(&sb, t, nil)
	s := sb.String()
	if len(s) > 400 {
		s = s[:400] + "…"
	}
	return s
}

func printTerm(sb *strings.Builder, t *Term, names map[int]string) {
	if names != nil {
		if n, ok := names[t.id]; ok {
			sb.WriteString(n)
			return
		}
	}
	if t.vars != nil {
		sb.WriteByte('(')
		sb.WriteString(t.op)
		sb.WriteString(" (")
		for i, v := range t.vars {
			if i > 0 {
				sb.WriteByte(' ')
			}
			fmt.Fprintf(sb, "(%s %s)", symbol(v.op), v.sort)
		}
		sb.WriteString(") ")
		printTerm(sb, t.args[0], names)
		sb.WriteByte(')')
		return
	}
	if len(t.args) == 0 {
		sb.WriteString(symbol(t.op))
		return
	}
	sb.WriteByte('(')
	sb.WriteString(symbol(t.op))
	for _, a := range t.args {
		sb.WriteByte(' ')
		printTerm(sb, a, names)
	}
	sb.WriteByte(')')
}

// symbol quotes names that are not simple SMT-LIB symbols.
func symbol(s string) string {
	if s == "" {
		return "||"
	}
	if s[0] == '(' || (s[0] >= '0' && s[0] <= '9') || s[0] == '#' {
		return s // literal or indexed identifier
	}
	simple := true
	for _, r := range s {
		if !(r >= 'a' && r <= 'z' || r >= 'A' && r <= 'Z' || r >= '0' && r <= '9' || strings.ContainsRune("_.$!?<>=+-*/", r)) {
			simple = false
			break
		}
	}
	if simple {
		return s
	}
	return "|" + s + "|"
}

// Script renders a set of root assertions as SMT-LIB text: declarations of the
// free constants they mention, define-funs for shared sub-terms, and the
// assertions themselves. Returned separately so the caller can place the
// theory preamble in front.
func (tb *TB) Script(roots []*Term) (decls string, body string) {
	// count references
	refs := map[int]int{}
	order := []*Term{}
	seen := map[int]bool{}
	var visit func(t *Term)
	visit = func(t *Term) {
		refs[t.id]++
		if seen[t.id] {
			return
		}
		seen[t.id] = true
		for _, a := range t.args {
			visit(a)
		}
		order = append(order, t) // post-order: children first
	}
	for _, r := range roots {
		visit(r)
	}
	var db, bb strings.Builder
	consts := []string{}
	cs := map[string]Sort{}
	for _, t := range order {
		if len(t.args) == 0 && t.vars == nil {
			if s, ok := tb.decls[t.op]; ok {
				if _, dup := cs[t.op]; !dup {
					cs[t.op] = s
					consts = append(consts, t.op)
				}
			}
		}
	}
	sort.Strings(consts)
	for _, c := range consts {
		fmt.Fprintf(&db, "(declare-const %s %s)\n", symbol(c), cs[c])
	}
	names := map[int]string{}
	for _, t := range order {
		if len(t.args) == 0 || t.bound {
			continue
		}
		if refs[t.id] > 1 {
			n := fmt.Sprintf("$n%d", t.id)
			bb.WriteString("(define-fun ")
			bb.WriteString(n)
			bb.WriteString(" () ")
			bb.WriteString(t.sort)
			bb.WriteByte(' ')
			// print body using names of children only
			delete(names, t.id)
			printTerm(&bb, t, names)
			bb.WriteString(")\n")
			names[t.id] = n
		}
	}
	for _, r := range roots {
		bb.WriteString("(assert ")
		printTerm(&bb, r, names)
		bb.WriteString(")\n")
	}
	return db.String(), bb.String()
}

// InlineBody prints t with nested sharing expanded (used for define-fun-rec
// bodies, which cannot reference top-level define-funs that mention formals).
func (tb *TB) InlineBody(t *Term) string {
	var sb strings.Builder
	printTerm(&sb, t, nil)
	return sb.String()
}
