package main

// Spec functions: pure ghost Go functions translated to SMT definitions by
// running their SSA through the same executor in "spec mode" (slices are pure
// sequences, no heap, no obligations).

import (
	"fmt"
	"go/ast"
	"go/token"
	"go/types"
	"strings"

	"golang.org/x/tools/go/ssa"
)

type specDef struct {
	name    string
	formals []*Term
	ret     Sort
	body    *Term
	opaque  bool
	fn      *ssa.Function
}

func (u *Unit) specSort(t types.Type) Sort {
	if sl, ok := t.Underlying().(*types.Slice); ok {
		return u.m.seqSort(sl.Elem())
	}
	return u.m.sortOf(t)
}

func (u *Unit) applySpec(st *State, con *Contract, fn *ssa.Function, args []Val, sig *types.Signature) Val {
	name := u.eng.funcName(fn)
	sd := u.defineSpec(name, con, fn)
	var targs []*Term
	for i, a := range args {
		t, ok := a.(*Term)
		if !ok {
			panic(u.errf("spec function %s: argument %d is not a term", name, i))
		}
		pt := fn.Signature.Params().At(i).Type()
		if sl, ok := pt.Underlying().(*types.Slice); ok && t.sort == SSlice {
			t = u.sliceToSeq(st, t, sl.Elem())
			u.assumeSeqTyping(st, t, sl.Elem())
		}
		if t.sort != sd.formals[i].sort {
			panic(u.errf("spec function %s: argument %d has sort %s, want %s", name, i, t.sort, sd.formals[i].sort))
		}
		targs = append(targs, t)
	}
	return u.m.tb.App(sd.symbol(), sd.ret, targs...)
}

func (sd *specDef) symbol() string { return "spec_" + sanitize(sd.name) }

// assumeSeqTyping: elements of a byte sequence snapshot are bytes (int theory).
func (u *Unit) assumeSeqTyping(st *State, q *Term, elem types.Type) {
	u.assumeArrTyping(u.m.SeqArr(q), elem)
}

// assumeArrTyping: every element of a content array has its Go type's range.
func (u *Unit) assumeArrTyping(arr *Term, elem types.Type) {
	m := u.m
	if m.mode != ModeInt || u.quiet || arr.bound {
		return
	}
	ii, ok := intTypeInfo(elem)
	if !ok {
		return
	}
	if u.typedArrs[arr.id] {
		return
	}
	u.typedArrs[arr.id] = true
	tb := m.tb
	j := tb.BoundVar("j", SInt)
	u.assume(tb.True(), tb.Forall([]*Term{j}, tb.And(tb.Le(tb.IntBig(ii.min()), tb.Select(arr, j)), tb.Le(tb.Select(arr, j), tb.IntBig(ii.max())))))
}

func (u *Unit) defineSpec(name string, con *Contract, fn *ssa.Function) *specDef {
	if sd, ok := u.specs[name]; ok {
		return sd
	}
	m := u.m
	sd := &specDef{name: name, fn: fn, opaque: con.opaque}
	u.specs[name] = sd
	sig := fn.Signature
	if sig.Results().Len() != 1 {
		panic(u.errf("spec function %s must have exactly one result", name))
	}
	sd.ret = u.specSort(sig.Results().At(0).Type())
	for _, p := range fn.Params {
		sd.formals = append(sd.formals, m.tb.Const(sd.symbol()+"!"+p.Name(), u.specSort(p.Type())))
	}
	if sd.opaque {
		u.specOrder = append(u.specOrder, name)
		return sd
	}
	// translate the body
	saveQuiet, saveSpec := u.quiet, m.specMode
	u.quiet, m.specMode = true, true
	defer func() { u.quiet, m.specMode = saveQuiet, saveSpec }()
	fr := u.newFrame(fn, con, 0)
	for i, p := range fn.Params {
		fr.vals[p] = sd.formals[i]
	}
	st := &State{guard: m.tb.True(), cells: map[any]Val{}, heap: map[string]*Term{}}
	if len(fr.loops) > 0 {
		panic(u.errf("spec function %s contains a loop", name))
	}
	rets := u.execBody(fr, st)
	_, vals, ok := u.mergeRets(rets)
	if !ok {
		panic(u.errf("spec function %s never returns", name))
	}
	body, ok := vals[0].(*Term)
	if !ok {
		panic(u.errf("spec function %s returns a non-term", name))
	}
	if body.sort != sd.ret {
		panic(u.errf("spec function %s: body sort %s, declared %s", name, body.sort, sd.ret))
	}
	sd.body = body
	u.specOrder = append(u.specOrder, name)
	return sd
}

// SpecDefs renders the spec functions used by this unit: non-recursive ones as
// define-fun (so that quantifiers in their bodies are ordinary macros),
// recursive groups as define-funs-rec, in dependency order.
func (u *Unit) SpecDefs(roots []*Term) string {
	if len(u.specOrder) == 0 {
		return ""
	}
	bySym := map[string]*specDef{}
	for _, n := range u.specOrder {
		bySym[u.specs[n].symbol()] = u.specs[n]
	}
	// only the spec functions reachable from this obligation's assertions are defined
	needed := map[*specDef]bool{}
	{
		seen := map[int]bool{}
		var work []*specDef
		var visit func(t *Term)
		visit = func(t *Term) {
			if seen[t.id] {
				return
			}
			seen[t.id] = true
			if d, ok := bySym[t.op]; ok && len(t.args) > 0 && !needed[d] {
				needed[d] = true
				work = append(work, d)
			}
			for _, a := range t.args {
				visit(a)
			}
		}
		for _, r := range roots {
			visit(r)
		}
		for len(work) > 0 {
			d := work[len(work)-1]
			work = work[:len(work)-1]
			if d.body != nil {
				visit(d.body)
			}
		}
	}
	deps := map[*specDef][]*specDef{}
	for _, n := range u.specOrder {
		sd := u.specs[n]
		if sd.body == nil {
			continue
		}
		seen := map[int]bool{}
		dset := map[*specDef]bool{}
		var visit func(t *Term)
		visit = func(t *Term) {
			if seen[t.id] {
				return
			}
			seen[t.id] = true
			if d, ok := bySym[t.op]; ok && len(t.args) > 0 {
				dset[d] = true
			}
			for _, a := range t.args {
				visit(a)
			}
		}
		visit(sd.body)
		for _, m := range u.specOrder {
			if dset[u.specs[m]] {
				deps[sd] = append(deps[sd], u.specs[m])
			}
		}
	}
	// Tarjan SCC
	index := map[*specDef]int{}
	low := map[*specDef]int{}
	onStack := map[*specDef]bool{}
	var stack []*specDef
	var sccs [][]*specDef
	idx := 0
	var strong func(v *specDef)
	strong = func(v *specDef) {
		idx++
		index[v], low[v] = idx, idx
		stack = append(stack, v)
		onStack[v] = true
		for _, w := range deps[v] {
			if index[w] == 0 {
				strong(w)
				if low[w] < low[v] {
					low[v] = low[w]
				}
			} else if onStack[w] && index[w] < low[v] {
				low[v] = index[w]
			}
		}
		if low[v] == index[v] {
			var comp []*specDef
			for {
				w := stack[len(stack)-1]
				stack = stack[:len(stack)-1]
				onStack[w] = false
				comp = append(comp, w)
				if w == v {
					break
				}
			}
			sccs = append(sccs, comp) // dependencies are completed first
		}
	}
	for _, n := range u.specOrder {
		if index[u.specs[n]] == 0 && needed[u.specs[n]] {
			strong(u.specs[n])
		}
	}
	var sb strings.Builder
	sig := func(sd *specDef) (string, string) {
		var ps, ss []string
		for _, f := range sd.formals {
			ps = append(ps, fmt.Sprintf("(%s %s)", symbol(f.op), f.sort))
			ss = append(ss, f.sort)
		}
		return strings.Join(ps, " "), strings.Join(ss, " ")
	}
	for _, comp := range sccs {
		if len(comp) == 1 {
			sd := comp[0]
			ps, ss := sig(sd)
			if sd.opaque || sd.body == nil {
				fmt.Fprintf(&sb, "(declare-fun %s (%s) %s)\n", symbol(sd.symbol()), ss, sd.ret)
				continue
			}
			selfRec := false
			for _, d := range deps[sd] {
				if d == sd {
					selfRec = true
				}
			}
			if !selfRec {
				fmt.Fprintf(&sb, "(define-fun %s (%s) %s %s)\n", symbol(sd.symbol()), ps, sd.ret, letForm(sd.body))
				continue
			}
		}
		var decls, bodies []string
		for _, sd := range comp {
			ps, _ := sig(sd)
			decls = append(decls, fmt.Sprintf("(%s (%s) %s)", symbol(sd.symbol()), ps, sd.ret))
			bodies = append(bodies, letForm(sd.body))
		}
		sb.WriteString("(define-funs-rec (\n  ")
		sb.WriteString(strings.Join(decls, "\n  "))
		sb.WriteString("\n) (\n  ")
		sb.WriteString(strings.Join(bodies, "\n  "))
		sb.WriteString("\n))\n")
	}
	return sb.String()
}

// letForm prints a term with shared sub-terms bound by nested lets.
func letForm(root *Term) string {
	refs := map[int]int{}
	var order []*Term
	seen := map[int]bool{}
	var visit func(t *Term)
	visit = func(t *Term) {
		refs[t.id]++
		if seen[t.id] {
			return
		}
		seen[t.id] = true
		for _, a := range t.args {
			visit(a)
		}
		order = append(order, t)
	}
	visit(root)
	names := map[int]string{}
	var sb strings.Builder
	n := 0
	for _, t := range order {
		if len(t.args) == 0 || t.bound || t == root {
			continue
		}
		if refs[t.id] > 1 {
			nm := fmt.Sprintf("l%d", t.id)
			sb.WriteString("(let ((" + nm + " ")
			printTerm(&sb, t, names)
			sb.WriteString(")) ")
			names[t.id] = nm
			n++
		}
	}
	printTerm(&sb, root, names)
	sb.WriteString(strings.Repeat(")", n))
	return sb.String()
}

// quantCall handles vForall/vExists called from spec bodies (SSA level).
func (u *Unit) quantCall(fr *Frame, st *State, name string, args []Val) (Val, bool) {
	if !strings.HasSuffix(name, ".vForall") && !strings.HasSuffix(name, ".vExists") {
		return nil, false
	}
	m := u.m
	tb := m.tb
	lo, hi := args[0].(*Term), args[1].(*Term)
	fv, ok := args[2].(*FuncVal)
	if !ok {
		panic(u.errf("%s needs a function literal", name))
	}
	bv := tb.BoundVar("i", m.ixSort())
	save := u.quiet
	u.quiet = true
	body := u.inline(fr, st.clone(), fv, nil, []Val{bv}, token.NoPos).(*Term)
	u.quiet = save
	rng := tb.And(m.IxLe(lo, bv), m.IxLt(bv, hi))
	if strings.HasSuffix(name, ".vForall") {
		return tb.Forall([]*Term{bv}, tb.Implies(rng, body)), true
	}
	return tb.Exists([]*Term{bv}, tb.And(rng, body)), true
}

// applyHint: `loop k hint lemma(args)` — call a lemma function ghostly.
func (u *Unit) applyHint(fr *Frame, st *State, h *Clause, li *loopInfo) {
	ci := u.eng.checked[u.eng.clauseOwner[h]]
	call, ok := ast.Unparen(ci.exprs[h]).(*ast.CallExpr)
	if !ok {
		panic(u.errf("hint %q is not a call", h.text))
	}
	env := u.frameEnv(fr, st, li)
	env.info = ci.info
	env.old.info = ci.info
	obj := env.calleeObj(call.Fun)
	fobj, ok := obj.(*types.Func)
	if !ok {
		panic(u.errf("hint %q: not a function", h.text))
	}
	fn := u.eng.ssaFunc(fobj)
	name := u.eng.funcName(fn)
	con := u.eng.contracts[name]
	if con == nil {
		panic(u.errf("hint %q: %s has no contract", h.text, name))
	}
	var args []Val
	sig := fobj.Type().(*types.Signature)
	for i, a := range call.Args {
		args = append(args, env.evalAs(a, sig.Params().At(i).Type()))
	}
	u.applyContract(fr, st, con, fn, args, token.NoPos, name)
}
