package main

// Semantic model of Go values in SMT: sorts for Go types, integer operations in
// the two integer theories ("int": mathematical integers with explicit wrap and
// overflow obligations; "bv": exact machine bit-vectors), slices, sequences,
// structs, interfaces.

import (
	"fmt"
	"go/constant"
	"go/token"
	"go/types"
	"math/big"
	"sort"
	"strings"
)

type Mode int

const (
	ModeInt Mode = iota
	ModeBV
)

func (m Mode) String() string {
	if m == ModeBV {
		return "bv"
	}
	return "int"
}

// Model holds everything that is per verification unit (one function under
// contract): term builder, theory mode, declared datatypes and functions.
type Model struct {
	tb      *TB
	mode    Mode
	structs map[string]*structDT // by datatype name
	stOrder []string
	seqs    map[string]Sort      // declared Seq datatypes: name -> elem sort
	ufuncs  map[string]string    // uninterpreted function name -> "(argsorts) ret"
	ufOrder []string
	axioms  []*Term
	typeTag map[string]int // interface dynamic type tags
	tagTypes map[int]types.Type // tag -> concrete type (when known)
	ifaceAsserts map[string]*types.Interface // impl_<name> predicates used by type assertions to interface types
	specMode bool          // slices are pure sequences (spec function bodies)
	noIx     bool          // plain off+i element indices (no ix function)
}

type structDT struct {
	name   string
	typ    *types.Struct
	named  string // qualified Go name (for heap keys)
	fields []structField
}
type structField struct {
	name string
	typ  types.Type
	sort Sort
}

func newModel(mode Mode) *Model {
	return &Model{tb: newTB(), mode: mode, structs: map[string]*structDT{}, seqs: map[string]Sort{},
		ufuncs: map[string]string{}, typeTag: map[string]int{}, tagTypes: map[int]types.Type{}, ifaceAsserts: map[string]*types.Interface{}}
}

func (m *Model) ixSort() Sort {
	if m.mode == ModeBV {
		return SBV(64)
	}
	return SInt
}

// ---------------------------------------------------------------- sorts

type intInfo struct {
	width  int
	signed bool
}

func intTypeInfo(t types.Type) (intInfo, bool) {
	b, ok := t.Underlying().(*types.Basic)
	if !ok {
		return intInfo{}, false
	}
	switch b.Kind() {
	case types.Int, types.Int64:
		return intInfo{64, true}, true
	case types.Int32:
		return intInfo{32, true}, true
	case types.Int16:
		return intInfo{16, true}, true
	case types.Int8:
		return intInfo{8, true}, true
	case types.Uint, types.Uint64, types.Uintptr:
		return intInfo{64, false}, true
	case types.Uint32:
		return intInfo{32, false}, true
	case types.Uint16:
		return intInfo{16, false}, true
	case types.Uint8:
		return intInfo{8, false}, true
	case types.UntypedInt, types.UntypedRune:
		return intInfo{64, true}, true
	}
	return intInfo{}, false
}

func isBool(t types.Type) bool {
	b, ok := t.Underlying().(*types.Basic)
	return ok && b.Info()&types.IsBoolean != 0
}
func isString(t types.Type) bool {
	b, ok := t.Underlying().(*types.Basic)
	return ok && b.Info()&types.IsString != 0
}
func isFloat(t types.Type) bool {
	b, ok := t.Underlying().(*types.Basic)
	return ok && b.Info()&types.IsFloat != 0
}

func (m *Model) intSort(ii intInfo) Sort {
	if m.mode == ModeBV {
		return SBV(ii.width)
	}
	return SInt
}

func (m *Model) sortOf(t types.Type) Sort {
	if tp, ok := t.(*types.TypeParam); ok {
		// only ~[]byte|~string type parameters occur in contracted code paths
		_ = tp
		return m.seqSort(types.Typ[types.Uint8])
	}
	switch u := t.Underlying().(type) {
	case *types.Basic:
		if ii, ok := intTypeInfo(t); ok {
			return m.intSort(ii)
		}
		switch {
		case u.Info()&types.IsBoolean != 0:
			return SBool
		case u.Info()&types.IsString != 0:
			return m.seqSort(types.Typ[types.Uint8])
		case u.Info()&types.IsFloat != 0:
			m.declSort(SF64)
			return SF64
		case u.Kind() == types.UnsafePointer, u.Kind() == types.UntypedNil:
			return SInt
		}
	case *types.Pointer, *types.Signature, *types.Map, *types.Chan:
		return SInt
	case *types.Slice:
		if m.specMode {
			return m.seqSort(u.Elem())
		}
		return SSlice
	case *types.Array:
		return SArr(m.ixSort(), m.sortOf(u.Elem()))
	case *types.Struct:
		return m.structSort(t)
	case *types.Interface:
		return SIface
	}
	panic(fmt.Sprintf("sortOf: unsupported type %s", t))
}

var extraSorts = map[string]bool{}

func (m *Model) declSort(s Sort) { extraSorts[s] = true }

func mangleSort(s Sort) string {
	r := strings.NewReplacer("(", "", ")", "", " ", "_")
	return r.Replace(s)
}

func (m *Model) seqSort(elem types.Type) Sort {
	es := m.sortOf(elem)
	name := "Seq_" + mangleSort(es)
	m.seqs[name] = es
	return name
}
func (m *Model) seqSortOfElemSort(es Sort) Sort {
	name := "Seq_" + mangleSort(es)
	m.seqs[name] = es
	return name
}

// typeKeyOwner: which named type first claimed a short key (package name + type
// name); a second type with the same short key (sync.Mutex / internal/sync.Mutex)
// gets a key built from its full package path.
var typeKeyOwner = map[string]*types.TypeName{}

func typeKeyName(t types.Type) string {
	if n, ok := t.(*types.Named); ok {
		o := n.Origin().Obj()
		if o.Pkg() != nil {
			k := o.Pkg().Name() + "_" + o.Name()
			if own, ok := typeKeyOwner[k]; !ok {
				typeKeyOwner[k] = o
			} else if own != o {
				return strings.NewReplacer("/", "_", ".", "_", "-", "_").Replace(o.Pkg().Path()) + "_" + o.Name()
			}
			return k
		}
		return o.Name()
	}
	if a, ok := t.(*types.Alias); ok {
		return typeKeyName(types.Unalias(a))
	}
	return ""
}

var anonStructs = map[string]string{}

func (m *Model) structInfo(t types.Type) *structDT {
	t = types.Unalias(t)
	st := t.Underlying().(*types.Struct)
	kn := typeKeyName(t)
	if kn == "" {
		k := st.String()
		if n, ok := anonStructs[k]; ok {
			kn = n
		} else {
			kn = fmt.Sprintf("anon%d", len(anonStructs))
			anonStructs[k] = kn
		}
	}
	name := "S_" + sanitize(kn)
	if dt, ok := m.structs[name]; ok {
		return dt
	}
	dt := &structDT{name: name, typ: st, named: sanitize(kn)}
	m.structs[name] = dt // before recursion (no recursive structs by value in Go)
	for i := 0; i < st.NumFields(); i++ {
		f := st.Field(i)
		dt.fields = append(dt.fields, structField{name: f.Name(), typ: f.Type(), sort: m.sortOf(f.Type())})
	}
	m.stOrder = append(m.stOrder, name) // post-order: dependencies first
	return dt
}

func (m *Model) structSort(t types.Type) Sort { return m.structInfo(t).name }

func (dt *structDT) ctor() string        { return "mk_" + dt.name }
func (dt *structDT) sel(i int) string {
	if dt.fields[i].name == "_" {
		return fmt.Sprintf("%s_blank%d", dt.name, i) // several blank fields may coexist
	}
	return dt.name + "_" + sanitize(dt.fields[i].name)
}
func (dt *structDT) heapKey(i int) string { return "F_" + dt.named + "_" + sanitize(dt.fields[i].name) }

// UF declares an uninterpreted function (idempotent).
func (m *Model) UF(name string, ret Sort, args ...Sort) {
	sig := "(" + strings.Join(args, " ") + ") " + ret
	if old, ok := m.ufuncs[name]; ok {
		if old != sig {
			panic("UF " + name + " redeclared: " + old + " vs " + sig)
		}
		return
	}
	m.ufuncs[name] = sig
	m.ufOrder = append(m.ufOrder, name)
}

// Preamble renders datatype and function declarations.
func (m *Model) Preamble() string {
	var sb strings.Builder
	ix := m.ixSort()
	for s := range extraSorts {
		fmt.Fprintf(&sb, "(declare-sort %s 0)\n", s)
	}
	fmt.Fprintf(&sb, "(declare-datatypes ((Slice 0)) (((mkslice (s_ref Int) (s_off %s) (s_len %s) (s_cap %s)))))\n", ix, ix, ix)
	sb.WriteString("(declare-datatypes ((Iface 0)) (((mkiface (i_tag Int) (i_val Int)))))\n")
	var seqNames []string
	for n := range m.seqs {
		seqNames = append(seqNames, n)
	}
	sort.Strings(seqNames)
	for _, n := range seqNames {
		fmt.Fprintf(&sb, "(declare-datatypes ((%s 0)) (((mk_%s (%s_arr (Array %s %s)) (%s_off %s) (%s_len %s)))))\n",
			n, n, n, ix, m.seqs[n], n, ix, n, ix)
	}
	for _, n := range m.stOrder {
		dt := m.structs[n]
		fmt.Fprintf(&sb, "(declare-datatypes ((%s 0)) (((%s", dt.name, dt.ctor())
		if len(dt.fields) == 0 {
			sb.WriteString(" (" + dt.name + "_dummy Bool)")
		}
		for i, f := range dt.fields {
			fmt.Fprintf(&sb, " (%s %s)", dt.sel(i), f.sort)
		}
		sb.WriteString("))))\n")
	}
	for _, n := range m.ufOrder {
		sig := m.ufuncs[n]
		i := strings.LastIndex(sig, ") ")
		fmt.Fprintf(&sb, "(declare-fun %s %s %s)\n", symbol(n), sig[:i+1], sig[i+2:])
	}
	return sb.String()
}

// ---------------------------------------------------------------- integers

func pow2(w int) *big.Int { return new(big.Int).Lsh(big.NewInt(1), uint(w)) }

func (ii intInfo) min() *big.Int {
	if !ii.signed {
		return big.NewInt(0)
	}
	return new(big.Int).Neg(pow2(ii.width - 1))
}
func (ii intInfo) max() *big.Int {
	if !ii.signed {
		return new(big.Int).Sub(pow2(ii.width), big.NewInt(1))
	}
	return new(big.Int).Sub(pow2(ii.width-1), big.NewInt(1))
}

// IntConst builds a constant of integer type t.
func (m *Model) IntConst(v *big.Int, t types.Type) *Term {
	ii, ok := intTypeInfo(t)
	if !ok {
		panic("IntConst of non-integer type " + t.String())
	}
	if m.mode == ModeBV {
		return m.tb.BV(v, ii.width)
	}
	return m.tb.IntBig(v)
}

func (m *Model) IxConst(v int64) *Term {
	if m.mode == ModeBV {
		return m.tb.BV(big.NewInt(v), 64)
	}
	return m.tb.Int(v)
}

// InRange is the typing invariant of an integer of type t (trivial in bv mode).
func (m *Model) InRange(x *Term, t types.Type) *Term {
	ii, ok := intTypeInfo(t)
	if !ok || m.mode == ModeBV {
		return m.tb.True()
	}
	return m.tb.And(m.tb.Le(m.tb.IntBig(ii.min()), x), m.tb.Le(x, m.tb.IntBig(ii.max())))
}

// wrap reduces a mathematical integer to the range of ii (int mode).
func (m *Model) wrap(x *Term, ii intInfo) *Term {
	tb := m.tb
	if v, ok := x.intLit(); ok {
		r := new(big.Int).Mod(v, pow2(ii.width))
		if ii.signed && r.Cmp(pow2(ii.width-1)) >= 0 {
			r.Sub(r, pow2(ii.width))
		}
		return tb.IntBig(r)
	}
	md := tb.App("mod", SInt, x, tb.IntBig(pow2(ii.width)))
	if !ii.signed {
		return md
	}
	return tb.Ite(tb.Lt(md, tb.IntBig(pow2(ii.width-1))), md, tb.Sub(md, tb.IntBig(pow2(ii.width))))
}

// Convert converts integer x from type 'from' to type 'to'.
func (m *Model) Convert(x *Term, from, to types.Type) *Term {
	fi, ok1 := intTypeInfo(from)
	ti, ok2 := intTypeInfo(to)
	if !ok1 || !ok2 {
		panic(fmt.Sprintf("Convert: non-integer %s -> %s", from, to))
	}
	tb := m.tb
	if m.mode == ModeBV {
		switch {
		case ti.width == fi.width:
			return x
		case ti.width < fi.width:
			return tb.App(fmt.Sprintf("(_ extract %d 0)", ti.width-1), SBV(ti.width), x)
		case fi.signed:
			return tb.App(fmt.Sprintf("(_ sign_extend %d)", ti.width-fi.width), SBV(ti.width), x)
		default:
			return tb.App(fmt.Sprintf("(_ zero_extend %d)", ti.width-fi.width), SBV(ti.width), x)
		}
	}
	// int mode: value preserved when the source range fits the target range
	if fi.min().Cmp(ti.min()) >= 0 && fi.max().Cmp(ti.max()) <= 0 {
		return x
	}
	if fi.signed && !ti.signed && ti.width >= fi.width {
		// cheaper than mod: negative values wrap by adding 2^w
		return tb.Ite(tb.Ge(x, tb.Int(0)), x, tb.Add(x, tb.IntBig(pow2(ti.width))))
	}
	if !fi.signed && ti.signed && ti.width == fi.width {
		return tb.Ite(tb.Lt(x, tb.IntBig(pow2(ti.width-1))), x, tb.Sub(x, tb.IntBig(pow2(ti.width))))
	}
	return m.wrap(x, ti)
}

// ArithResult carries the value and, in int mode for signed types, the
// mathematical result whose range membership is an overflow obligation.
type ArithResult struct {
	val      *Term
	overflow *Term // nil if none: condition "no overflow"
	div0     *Term // nil if none: condition "divisor != 0"
}

func (m *Model) isZero(x *Term, ii intInfo) *Term {
	if m.mode == ModeBV {
		return m.tb.Eq(x, m.tb.BV(big.NewInt(0), ii.width))
	}
	return m.tb.Eq(x, m.tb.Int(0))
}

// constMask returns the constant value of a term when it is a literal.
func (m *Model) constVal(x *Term) (*big.Int, bool) {
	if m.mode == ModeInt {
		return x.intLit()
	}
	if strings.HasPrefix(x.op, "(_ bv") && len(x.args) == 0 {
		s := strings.TrimPrefix(x.op, "(_ bv")
		i := strings.IndexByte(s, ' ')
		v, ok := new(big.Int).SetString(s[:i], 10)
		return v, ok
	}
	return nil, false
}

// BinOp implements Go's binary operators on integers of type t
// (shift counts have their own type ct).
func (m *Model) BinOp(op token.Token, x, y *Term, t types.Type, ct types.Type) ArithResult {
	ii, ok := intTypeInfo(t)
	if !ok {
		panic("BinOp on non-integer type " + t.String())
	}
	if m.mode == ModeBV {
		return m.binopBV(op, x, y, ii, ct)
	}
	return m.binopInt(op, x, y, ii, ct)
}

func (m *Model) binopBV(op token.Token, x, y *Term, ii intInfo, ct types.Type) ArithResult {
	tb := m.tb
	s := SBV(ii.width)
	zero := tb.BV(big.NewInt(0), ii.width)
	switch op {
	case token.ADD:
		return ArithResult{val: tb.App("bvadd", s, x, y)}
	case token.SUB:
		return ArithResult{val: tb.App("bvsub", s, x, y)}
	case token.MUL:
		return ArithResult{val: tb.App("bvmul", s, x, y)}
	case token.QUO:
		o := "bvudiv"
		if ii.signed {
			o = "bvsdiv"
		}
		return ArithResult{val: tb.App(o, s, x, y), div0: tb.Not(tb.Eq(y, zero))}
	case token.REM:
		o := "bvurem"
		if ii.signed {
			o = "bvsrem"
		}
		return ArithResult{val: tb.App(o, s, x, y), div0: tb.Not(tb.Eq(y, zero))}
	case token.AND:
		return ArithResult{val: tb.App("bvand", s, x, y)}
	case token.OR:
		return ArithResult{val: tb.App("bvor", s, x, y)}
	case token.XOR:
		return ArithResult{val: tb.App("bvxor", s, x, y)}
	case token.AND_NOT:
		return ArithResult{val: tb.App("bvand", s, x, tb.App("bvnot", s, y))}
	case token.SHL, token.SHR:
		ci, _ := intTypeInfo(ct)
		// bring the count to the operand width, saturating
		var cnt *Term
		var big_ *Term = tb.False()
		switch {
		case ci.width == ii.width:
			cnt = y
		case ci.width < ii.width:
			cnt = tb.App(fmt.Sprintf("(_ zero_extend %d)", ii.width-ci.width), s, y)
		default:
			cnt = tb.App(fmt.Sprintf("(_ extract %d 0)", ii.width-1), s, y)
			big_ = tb.App("bvuge", SBool, y, tb.BV(big.NewInt(int64(ii.width)), ci.width))
		}
		o := "bvshl"
		if op == token.SHR {
			o = "bvlshr"
			if ii.signed {
				o = "bvashr"
			}
		}
		sh := tb.App(o, s, x, cnt)
		if !isFalse(big_) {
			over := zero
			if op == token.SHR && ii.signed {
				over = tb.App("bvashr", s, x, tb.BV(big.NewInt(int64(ii.width-1)), ii.width))
			}
			sh = tb.Ite(big_, over, sh)
		}
		return ArithResult{val: sh}
	}
	panic("binopBV: unsupported operator " + op.String())
}

func (m *Model) binopInt(op token.Token, x, y *Term, ii intInfo, ct types.Type) ArithResult {
	tb := m.tb
	inr := func(r *Term) *Term {
		return tb.And(tb.Le(tb.IntBig(ii.min()), r), tb.Le(r, tb.IntBig(ii.max())))
	}
	P := tb.IntBig(pow2(ii.width))
	switch op {
	case token.ADD:
		r := tb.Add(x, y)
		if ii.signed {
			return ArithResult{val: r, overflow: inr(r)}
		}
		if _, ok := r.intLit(); ok {
			return ArithResult{val: m.wrap(r, ii)}
		}
		return ArithResult{val: tb.Ite(tb.Lt(r, P), r, tb.Sub(r, P))}
	case token.SUB:
		r := tb.Sub(x, y)
		if ii.signed {
			return ArithResult{val: r, overflow: inr(r)}
		}
		if _, ok := r.intLit(); ok {
			return ArithResult{val: m.wrap(r, ii)}
		}
		return ArithResult{val: tb.Ite(tb.Ge(r, tb.Int(0)), r, tb.Add(r, P))}
	case token.MUL:
		r := tb.Mul(x, y)
		if ii.signed {
			return ArithResult{val: r, overflow: inr(r)}
		}
		return ArithResult{val: m.wrap(r, ii)}
	case token.QUO, token.REM:
		nz := tb.Not(tb.Eq(y, tb.Int(0)))
		var q *Term
		if !ii.signed {
			q = tb.App("div", SInt, x, y)
			if op == token.REM {
				q = tb.App("mod", SInt, x, y)
			}
			return ArithResult{val: q, div0: nz}
		}
		// truncated division from SMT's Euclidean division
		ax := tb.Ite(tb.Ge(x, tb.Int(0)), x, tb.Sub(tb.Int(0), x))
		ay := tb.Ite(tb.Ge(y, tb.Int(0)), y, tb.Sub(tb.Int(0), y))
		aq := tb.App("div", SInt, ax, ay)
		sameSign := tb.Eq(tb.Ge(x, tb.Int(0)), tb.Ge(y, tb.Int(0)))
		qq := tb.Ite(sameSign, aq, tb.Sub(tb.Int(0), aq))
		if op == token.QUO {
			return ArithResult{val: qq, div0: nz, overflow: inr(qq)}
		}
		ar := tb.App("mod", SInt, ax, ay)
		rr := tb.Ite(tb.Ge(x, tb.Int(0)), ar, tb.Sub(tb.Int(0), ar))
		return ArithResult{val: rr, div0: nz}
	case token.SHL, token.SHR:
		if c, ok := y.intLit(); ok && c.IsInt64() && c.Int64() >= 0 {
			k := int(c.Int64())
			if op == token.SHR {
				if k >= ii.width {
					if ii.signed {
						return ArithResult{val: tb.Ite(tb.Lt(x, tb.Int(0)), tb.Int(-1), tb.Int(0))}
					}
					return ArithResult{val: tb.Int(0)}
				}
				return ArithResult{val: tb.App("div", SInt, x, tb.IntBig(pow2(k)))}
			}
			if k >= ii.width {
				return ArithResult{val: tb.Int(0)}
			}
			return ArithResult{val: m.wrap(tb.Mul(x, tb.IntBig(pow2(k))), ii)}
		}
		name := fmt.Sprintf("go_shl%d", ii.width)
		if op == token.SHR {
			name = fmt.Sprintf("go_shr%d", ii.width)
		}
		if ii.signed {
			name += "s"
		}
		m.UF(name, SInt, SInt, SInt)
		return ArithResult{val: tb.App(name, SInt, x, y)}
	case token.AND, token.OR, token.XOR, token.AND_NOT:
		// constant operand: decompose into div/mod
		if !ii.signed {
			if c, ok := y.intLit(); ok {
				return ArithResult{val: m.bitopConst(op, x, c, ii)}
			}
			if c, ok := x.intLit(); ok && op != token.AND_NOT {
				return ArithResult{val: m.bitopConst(op, y, c, ii)}
			}
		}
		name := map[token.Token]string{token.AND: "go_and", token.OR: "go_or", token.XOR: "go_xor", token.AND_NOT: "go_andnot"}[op]
		m.UF(name, SInt, SInt, SInt)
		return ArithResult{val: tb.App(name, SInt, x, y)}
	}
	panic("binopInt: unsupported operator " + op.String())
}

// bitopConst computes x OP c for a constant mask c on unsigned x in int mode.
func (m *Model) bitopConst(op token.Token, x *Term, c *big.Int, ii intInfo) *Term {
	tb := m.tb
	c = new(big.Int).Mod(c, pow2(ii.width))
	// and(x,c) = sum over maximal runs [lo,hi) of set bits: ((x div 2^lo) mod 2^(hi-lo)) * 2^lo
	andc := func(c *big.Int) *Term {
		var sum *Term = tb.Int(0)
		i := 0
		for i < ii.width {
			if c.Bit(i) == 0 {
				i++
				continue
			}
			lo := i
			for i < ii.width && c.Bit(i) == 1 {
				i++
			}
			hi := i
			var part *Term = x
			if lo > 0 {
				part = tb.App("div", SInt, part, tb.IntBig(pow2(lo)))
			}
			if hi < ii.width {
				part = tb.App("mod", SInt, part, tb.IntBig(pow2(hi-lo)))
			}
			if lo > 0 {
				part = tb.Mul(part, tb.IntBig(pow2(lo)))
			}
			sum = tb.Add(sum, part)
		}
		return sum
	}
	switch op {
	case token.AND:
		return andc(c)
	case token.AND_NOT:
		return tb.Sub(x, andc(c))
	case token.OR:
		return tb.Sub(tb.Add(x, tb.IntBig(c)), andc(c))
	case token.XOR:
		// x^c = (x|c) - (x&c)
		a := andc(c)
		return tb.Sub(tb.Sub(tb.Add(x, tb.IntBig(c)), a), a)
	}
	panic("bitopConst")
}

func (m *Model) Neg(x *Term, t types.Type) ArithResult {
	ii, _ := intTypeInfo(t)
	tb := m.tb
	if m.mode == ModeBV {
		return ArithResult{val: tb.App("bvneg", SBV(ii.width), x)}
	}
	r := tb.Sub(tb.Int(0), x)
	if ii.signed {
		return ArithResult{val: r, overflow: tb.Le(r, tb.IntBig(ii.max()))}
	}
	return ArithResult{val: m.wrap(r, ii)}
}

func (m *Model) BitNot(x *Term, t types.Type) *Term {
	ii, _ := intTypeInfo(t)
	tb := m.tb
	if m.mode == ModeBV {
		return tb.App("bvnot", SBV(ii.width), x)
	}
	if ii.signed {
		return tb.Sub(tb.Int(-1), x)
	}
	return tb.Sub(tb.IntBig(ii.max()), x)
}

func (m *Model) Compare(op token.Token, x, y *Term, t types.Type) *Term {
	tb := m.tb
	switch op {
	case token.EQL:
		return tb.Eq(x, y)
	case token.NEQ:
		return tb.Not(tb.Eq(x, y))
	}
	ii, ok := intTypeInfo(t)
	if !ok {
		panic("Compare: ordered comparison on non-integer " + t.String())
	}
	if m.mode == ModeBV {
		pre := "bvu"
		if ii.signed {
			pre = "bvs"
		}
		switch op {
		case token.LSS:
			return tb.App(pre+"lt", SBool, x, y)
		case token.LEQ:
			return tb.App(pre+"le", SBool, x, y)
		case token.GTR:
			return tb.App(pre+"lt", SBool, y, x)
		case token.GEQ:
			return tb.App(pre+"le", SBool, y, x)
		}
	}
	switch op {
	case token.LSS:
		return tb.Lt(x, y)
	case token.LEQ:
		return tb.Le(x, y)
	case token.GTR:
		return tb.Gt(x, y)
	case token.GEQ:
		return tb.Ge(x, y)
	}
	panic("Compare: operator " + op.String())
}

// index-sort arithmetic (Go int)
var tInt = types.Typ[types.Int]

func (m *Model) IxAdd(a, b *Term) *Term {
	if m.mode == ModeBV {
		return m.tb.App("bvadd", SBV(64), a, b)
	}
	return m.tb.Add(a, b)
}
func (m *Model) IxSub(a, b *Term) *Term {
	if m.mode == ModeBV {
		return m.tb.App("bvsub", SBV(64), a, b)
	}
	return m.tb.Sub(a, b)
}
// ElemIx is the absolute index off+i of element i of a slice/sequence starting
// at off. It is an uninterpreted function with the defining axiom
// ix(o,i) = o+i, so that quantified facts about "element i" have a pattern
// that matches every element access syntactically (including i == 0).
func (m *Model) ElemIx(off, i *Term) *Term {
	if m.noIx {
		return m.IxAdd(off, i)
	}
	ix := m.ixSort()
	if _, ok := m.ufuncs["ix"]; !ok {
		m.UF("ix", ix, ix, ix)
		o := m.tb.BoundVar("o", ix)
		k := m.tb.BoundVar("k", ix)
		m.addAxiom(m.tb.Forall([]*Term{o, k}, m.tb.Eq(m.tb.App("ix", ix, o, k), m.IxAdd(o, k))))
	}
	// fold sub-slice offsets into the index: ix(base+d, i) is written ix(base, d+i),
	// so that b[lo:hi][k] and b[lo+k] are the same term
	base, delta := m.splitOff(off)
	if delta != nil {
		i = m.IxAdd(delta, i)
	}
	return m.tb.App("ix", ix, base, i)
}

// splitOff peels additions off an offset term: off = base + delta.
func (m *Model) splitOff(off *Term) (base, delta *Term) {
	op := "+"
	if m.mode == ModeBV {
		op = "bvadd"
	}
	if off.op == op && len(off.args) == 2 {
		b, d := m.splitOff(off.args[0])
		if d == nil {
			return b, off.args[1]
		}
		return b, m.IxAdd(d, off.args[1])
	}
	return off, nil
}
func (m *Model) IxLe(a, b *Term) *Term { return m.Compare(token.LEQ, a, b, tInt) }
func (m *Model) IxLt(a, b *Term) *Term { return m.Compare(token.LSS, a, b, tInt) }

// ---------------------------------------------------------------- slices & sequences

func (m *Model) SliceRef(s *Term) *Term { return m.proj("s_ref", SInt, s, 0) }
func (m *Model) SliceOff(s *Term) *Term { return m.proj("s_off", m.ixSort(), s, 1) }
func (m *Model) SliceLen(s *Term) *Term { return m.proj("s_len", m.ixSort(), s, 2) }
func (m *Model) SliceCap(s *Term) *Term { return m.proj("s_cap", m.ixSort(), s, 3) }
func (m *Model) MkSlice(ref, off, ln, cp *Term) *Term {
	return m.tb.App("mkslice", SSlice, ref, off, ln, cp)
}
func (m *Model) NilSlice() *Term {
	z := m.IxConst(0)
	return m.MkSlice(m.tb.Int(0), z, z, z)
}

// proj applies a datatype selector, simplifying over constructors.
func (m *Model) proj(sel string, sort Sort, x *Term, i int) *Term {
	if strings.HasPrefix(x.op, "mk") && len(x.args) > i && !strings.HasPrefix(x.op, "mk_S_") {
		return x.args[i]
	}
	if x.op == "ite" {
		// push projections through small ites to keep constructors visible
		a, b := x.args[1], x.args[2]
		if strings.HasPrefix(a.op, "mk") || strings.HasPrefix(b.op, "mk") {
			return m.tb.Ite(x.args[0], m.proj(sel, sort, a, i), m.proj(sel, sort, b, i))
		}
	}
	return m.tb.App(sel, sort, x)
}

func (m *Model) SliceWF(s *Term) *Term {
	tb := m.tb
	z := m.IxConst(0)
	lim := m.IxConst(1 << 60)
	return tb.And(m.IxLe(z, m.SliceOff(s)), m.IxLe(z, m.SliceLen(s)), m.IxLe(m.SliceLen(s), m.SliceCap(s)),
		m.IxLt(m.IxAdd(m.SliceOff(s), m.SliceCap(s)), lim), m.IxLt(m.SliceOff(s), lim), m.IxLt(m.SliceCap(s), lim),
		tb.Le(tb.Int(0), m.SliceRef(s)),
		tb.Implies(tb.Eq(m.SliceRef(s), tb.Int(0)), m.tb.Eq(m.SliceCap(s), z)))
}

func (m *Model) SeqArr(q *Term) *Term {
	es := m.seqs[q.sort]
	return m.proj(q.sort+"_arr", SArr(m.ixSort(), es), q, 0)
}
func (m *Model) SeqOff(q *Term) *Term { return m.proj(q.sort+"_off", m.ixSort(), q, 1) }
func (m *Model) SeqLen(q *Term) *Term { return m.proj(q.sort+"_len", m.ixSort(), q, 2) }
func (m *Model) MkSeq(sort Sort, arr, off, ln *Term) *Term {
	return m.tb.App("mk_"+sort, sort, arr, off, ln)
}
func (m *Model) SeqAt(q, i *Term) *Term {
	return m.tb.Select(m.SeqArr(q), m.ElemIx(m.SeqOff(q), i))
}
func (m *Model) SeqWF(q *Term) *Term {
	z := m.IxConst(0)
	lim := m.IxConst(1 << 60)
	return m.tb.And(m.IxLe(z, m.SeqOff(q)), m.IxLe(z, m.SeqLen(q)), m.IxLt(m.SeqOff(q), lim), m.IxLt(m.SeqLen(q), lim))
}

// StringConst builds a sequence constant with asserted contents.
func (m *Model) StringConst(s string) *Term {
	bt := types.Typ[types.Uint8]
	sortQ := m.seqSort(bt)
	es := m.sortOf(bt)
	name := "str_" + hexName(s)
	arr := m.tb.Const(name, SArr(m.ixSort(), es))
	for i := 0; i < len(s); i++ {
		ax := m.tb.Eq(m.tb.Select(arr, m.IxConst(int64(i))), m.IntConst(big.NewInt(int64(s[i])), bt))
		m.addAxiom(ax)
	}
	return m.MkSeq(sortQ, arr, m.IxConst(0), m.IxConst(int64(len(s))))
}

func hexName(s string) string {
	if len(s) > 24 {
		h := uint64(14695981039346656037)
		for i := 0; i < len(s); i++ {
			h = (h ^ uint64(s[i])) * 1099511628211
		}
		return fmt.Sprintf("h%x_%d", h, len(s))
	}
	return fmt.Sprintf("%x", s)
}

func (m *Model) addAxiom(ax *Term) {
	for _, a := range m.axioms {
		if a == ax {
			return
		}
	}
	m.axioms = append(m.axioms, ax)
}

// ---------------------------------------------------------------- interfaces

func (m *Model) NilIface() *Term { return m.tb.App("mkiface", SIface, m.tb.Int(0), m.tb.Int(0)) }
func (m *Model) IfaceTag(x *Term) *Term { return m.proj("i_tag", SInt, x, 0) }
func (m *Model) IfaceVal(x *Term) *Term { return m.proj("i_val", SInt, x, 1) }
func (m *Model) TypeTag(t types.Type) *Term {
	r := m.TypeTagByName(types.TypeString(t, nil))
	if _, isIface := t.Underlying().(*types.Interface); !isIface {
		m.tagTypes[m.typeTag[types.TypeString(t, nil)]] = t
	}
	return r
}

// ImplementsAxioms: for every interface used in a type assertion and every
// concrete dynamic type known to this unit, whether the type implements the
// interface (decided by the Go type checker's method sets).
func (m *Model) ImplementsAxioms() []*Term {
	var out []*Term
	var names []string
	for n := range m.ifaceAsserts {
		names = append(names, n)
	}
	sort.Strings(names)
	for _, n := range names {
		it := m.ifaceAsserts[n]
		out = append(out, m.tb.Not(m.tb.App(n, SBool, m.tb.Int(0))))
		var ids []int
		for id := range m.tagTypes {
			ids = append(ids, id)
		}
		sort.Ints(ids)
		for _, id := range ids {
			out = append(out, m.tb.Eq(m.tb.App(n, SBool, m.tb.Int(int64(id))), m.tb.Bool(types.Implements(m.tagTypes[id], it))))
		}
	}
	return out
}
func (m *Model) TypeTagByName(k string) *Term {
	id, ok := m.typeTag[k]
	if !ok {
		id = len(m.typeTag) + 1
		m.typeTag[k] = id
	}
	return m.tb.Int(int64(id))
}

// ---------------------------------------------------------------- constants

func (m *Model) ConstOf(v constant.Value, t types.Type) *Term {
	tb := m.tb
	if v == nil { // nil / zero constant
		return m.Zero(t)
	}
	switch {
	case isBool(t):
		return tb.Bool(constant.BoolVal(v))
	case isString(t):
		return m.StringConst(constant.StringVal(v))
	case isFloat(t):
		f, _ := constant.Float64Val(v)
		name := fmt.Sprintf("f64_%x", fmt.Sprintf("%g", f))
		return tb.Const(name, m.sortOf(t))
	}
	if _, ok := intTypeInfo(t); ok {
		iv := constant.ToInt(v)
		bi, ok := new(big.Int).SetString(iv.ExactString(), 10)
		if !ok {
			panic("ConstOf: bad integer constant " + v.ExactString())
		}
		return m.IntConst(bi, t)
	}
	panic(fmt.Sprintf("ConstOf: unsupported constant %s of type %s", v, t))
}

// Zero is the zero value of a Go type.
func (m *Model) Zero(t types.Type) *Term {
	tb := m.tb
	if _, ok := t.(*types.TypeParam); ok {
		return m.MkSeq(m.sortOf(t), tb.Const("zero_arr_"+mangleSort(m.sortOf(t)), SArr(m.ixSort(), m.sortOf(types.Typ[types.Uint8]))), m.IxConst(0), m.IxConst(0))
	}
	switch u := t.Underlying().(type) {
	case *types.Basic:
		switch {
		case isBool(t):
			return tb.False()
		case isString(t):
			return m.StringConst("")
		case isFloat(t):
			return tb.Const("f64_zero", m.sortOf(t))
		}
		if _, ok := intTypeInfo(t); ok {
			return m.IntConst(big.NewInt(0), t)
		}
		return tb.Int(0)
	case *types.Pointer, *types.Signature, *types.Map, *types.Chan:
		return tb.Int(0)
	case *types.Slice:
		return m.NilSlice()
	case *types.Interface:
		return m.NilIface()
	case *types.Struct:
		dt := m.structInfo(t)
		var args []*Term
		for _, f := range dt.fields {
			args = append(args, m.Zero(f.typ))
		}
		if len(args) == 0 {
			args = append(args, tb.True())
		}
		return tb.App(dt.ctor(), dt.name, args...)
	case *types.Array:
		es := m.sortOf(u.Elem())
		return tb.App(fmt.Sprintf("((as const %s) %s)", SArr(m.ixSort(), es), printInline(m.Zero(u.Elem()))), SArr(m.ixSort(), es))
	}
	panic("Zero: unsupported type " + t.String())
}

func printInline(t *Term) string {
	var sb strings.Builder
	printTerm(&sb, t, nil)
	return sb.String()
}

// StructField projects field i out of a struct value.
func (m *Model) StructField(x *Term, t types.Type, i int) *Term {
	dt := m.structInfo(t)
	if x.op == dt.ctor() {
		return x.args[i]
	}
	return m.tb.App(dt.sel(i), dt.fields[i].sort, x)
}

// StructWith returns x with field i replaced by v.
func (m *Model) StructWith(x *Term, t types.Type, i int, v *Term) *Term {
	dt := m.structInfo(t)
	var args []*Term
	for j := range dt.fields {
		if j == i {
			args = append(args, v)
		} else {
			args = append(args, m.StructField(x, t, j))
		}
	}
	return m.tb.App(dt.ctor(), dt.name, args...)
}
