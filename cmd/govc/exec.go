package main

// Forward symbolic execution of go/ssa (NaiveForm) with state merging at
// joins, loops cut at headers by invariants, and modular calls.

import (
	"fmt"
	"go/constant"
	"go/token"
	"go/types"
	"math/big"
	"sort"
	"strings"

	"golang.org/x/tools/go/ssa"
)

type Oblig struct {
	name    string
	class   string
	label   string
	guard   *Term
	goal    *Term
	nassume int
	pos     token.Position
	text    string // contract text or description
	// filled by discharge
	result  string // proved, failed, unknown, timeout
	solver  string
	timeS   float64
	output  string
	model   map[string]string
	expectFail bool // vacuity probe: must NOT be provable
	without []string // tags of assumptions left out of this obligation's context (always sound)
}

type engineErr struct{ msg string }

func (e engineErr) Error() string { return e.msg }

func (u *Unit) errf(format string, args ...any) engineErr {
	return engineErr{fmt.Sprintf("%s: ", u.name) + fmt.Sprintf(format, args...)}
}

// Frame is one activation of a function being executed symbolically.
type Frame struct {
	fn      *ssa.Function
	con     *Contract
	vals    map[ssa.Value]Val
	binds   []Val
	depth   int
	defers  []*ssa.Defer
	deferAt map[*ssa.Defer][]Val
	deferGuard map[*ssa.Defer]*Term
	loops   map[*ssa.BasicBlock]*loopInfo
	order   []*ssa.BasicBlock
	entry   *State // state at activation (for old() in inlined loop invariants)
	top     bool
	hdrIdx  map[*ssa.BasicBlock]int
	aliases map[*ssa.BasicBlock]map[*ssa.Alloc]*ssa.Alloc // range variable -> hidden iteration cell at header
	paramVals map[string]Val
}

type retPoint struct {
	st   *State
	vals []Val
}

type loopInfo struct {
	header   *ssa.BasicBlock
	body     map[*ssa.BasicBlock]bool
	backs    []*ssa.BasicBlock
	ordinal  int
	modCells map[any]bool
	modHeap  map[string]Sort
	modAll   bool
}

func (u *Unit) assume(guard, fact *Term) {
	if u.quiet || isTrue(fact) {
		return
	}
	if fact.bound || guard.bound {
		return // facts about quantified variables cannot be asserted at top level
	}
	a := u.m.tb.Implies(guard, fact)
	if u.assumed[a.id] {
		return
	}
	u.assumed[a.id] = true
	u.assumptions = append(u.assumptions, a)
	u.assumeTags = append(u.assumeTags, u.curTag)
	if fact.op == "forall" || fact.op == "and" || fact.op == "=>" {
		for _, r := range u.reindexFacts(fact) {
			ra := u.m.tb.Implies(guard, r)
			if !u.assumed[ra.id] {
				u.assumed[ra.id] = true
				u.assumptions = append(u.assumptions, ra)
				u.assumeTags = append(u.assumeTags, u.curTag)
			}
		}
	}
}

func (u *Unit) oblige(class, label string, st *State, goal *Term, pos token.Pos, text string) {
	if u.quiet || isFalse(st.guard) {
		return
	}
	if isTrue(goal) && label == "" {
		return
	}
	if u.con != nil && u.con.onlyAsserts != "" && class != "assert" && class != "post" {
		// thin contract: run-time checks and callee preconditions of this function are assumed
		u.noteHavoc("assertions-only contract of " + u.name + ": " + class + " obligations assumed")
		u.assume(st.guard, goal)
		return
	}
	u.counter[class]++
	name := fmt.Sprintf("%s/%s/%d", u.name, class, u.counter[class])
	if label != "" {
		name = fmt.Sprintf("%s/%s/%s", u.name, class, label)
		if n := u.labelSeen[name]; n > 0 {
			name = fmt.Sprintf("%s#%d", name, n+1)
		}
		u.labelSeen[fmt.Sprintf("%s/%s/%s", u.name, class, label)]++
	}
	o := &Oblig{name: name, class: class, label: label, guard: st.guard, goal: goal, nassume: len(u.assumptions), text: text, without: u.curWithout}
	if pos.IsValid() {
		o.pos = u.eng.fset.Position(pos)
	}
	if isTrue(goal) {
		o.result, o.solver = "proved", "syntactic"
	}
	u.obligs = append(u.obligs, o)
	// after the obligation, the fact may be assumed on this path (postconditions
	// and frame conditions stay independent so that each failure is reported)
	if class != "post" && class != "frame" && class != "inv-preserve" && class != "variant" {
		save := u.curTag
		u.curTag = label
		u.assume(st.guard, goal)
		u.curTag = save
	}
}

// probe adds a vacuity probe: `false` must not be provable at this point.
func (u *Unit) probe(label string, st *State) {
	if u.quiet || isFalse(st.guard) {
		return
	}
	o := &Oblig{name: fmt.Sprintf("%s/vacuity/%s", u.name, label), class: "vacuity", label: label, guard: st.guard, goal: u.m.tb.False(),
		nassume: len(u.assumptions), text: "reachability probe (must not be provable)", expectFail: true}
	u.obligs = append(u.obligs, o)
}

// ------------------------------------------------------------ CFG analysis

func (u *Unit) analyze(fn *ssa.Function) (order []*ssa.BasicBlock, loops map[*ssa.BasicBlock]*loopInfo) {
	loops = map[*ssa.BasicBlock]*loopInfo{}
	for _, b := range fn.Blocks {
		for _, s := range b.Succs {
			if s.Dominates(b) { // back edge b -> s
				li := loops[s]
				if li == nil {
					li = &loopInfo{header: s, body: map[*ssa.BasicBlock]bool{s: true}}
					loops[s] = li
				}
				li.backs = append(li.backs, b)
				// natural loop: nodes reaching b without passing s
				stack := []*ssa.BasicBlock{b}
				for len(stack) > 0 {
					x := stack[len(stack)-1]
					stack = stack[:len(stack)-1]
					if li.body[x] {
						continue
					}
					li.body[x] = true
					stack = append(stack, x.Preds...)
				}
			}
		}
	}
	var hs []*ssa.BasicBlock
	for h := range loops {
		hs = append(hs, h)
	}
	sort.Slice(hs, func(i, j int) bool { return hs[i].Index < hs[j].Index })
	for i, h := range hs {
		loops[h].ordinal = i
	}
	// topological order on forward edges (DFS post-order reversed)
	seen := map[*ssa.BasicBlock]bool{}
	var post []*ssa.BasicBlock
	var dfs func(b *ssa.BasicBlock)
	dfs = func(b *ssa.BasicBlock) {
		seen[b] = true
		for _, s := range b.Succs {
			if s.Dominates(b) {
				continue
			}
			if !seen[s] {
				dfs(s)
			}
		}
		post = append(post, b)
	}
	if len(fn.Blocks) > 0 {
		dfs(fn.Blocks[0])
	}
	for i := len(post) - 1; i >= 0; i-- {
		order = append(order, post[i])
	}
	return
}

// modSets computes what a loop may modify (syntactic over-approximation).
func (u *Unit) modSets(fr *Frame, li *loopInfo) {
	li.modCells = map[any]bool{}
	li.modHeap = map[string]Sort{}
	var scanFn func(fn *ssa.Function, blocks []*ssa.BasicBlock, depth int)
	var root func(v ssa.Value) ssa.Value
	root = func(v ssa.Value) ssa.Value {
		for {
			switch x := v.(type) {
			case *ssa.FieldAddr:
				v = x.X
			case *ssa.IndexAddr:
				v = x.X
			default:
				return v
			}
		}
	}
	markStore := func(addr ssa.Value) {
		switch a := addr.(type) {
		case *ssa.Alloc:
			li.modCells[a] = true
		case *ssa.FieldAddr:
			// field of a heap object or of a local struct cell
			r := root(a)
			if al, ok := r.(*ssa.Alloc); ok {
				li.modCells[al] = true
				if _, isArr := al.Type().Underlying().(*types.Pointer).Elem().Underlying().(*types.Array); isArr {
					k, srt := u.elemsKey(al.Type().Underlying().(*types.Pointer).Elem().Underlying().(*types.Array).Elem())
					li.modHeap[k] = srt
				}
				return
			}
			st := a.X.Type().Underlying().(*types.Pointer).Elem()
			u.markFieldKeys(li, st, a.Field)
		case *ssa.IndexAddr:
			r := root(a)
			if al, ok := r.(*ssa.Alloc); ok {
				li.modCells[al] = true
			}
			var et types.Type
			switch xt := a.X.Type().Underlying().(type) {
			case *types.Slice:
				et = xt.Elem()
			case *types.Pointer:
				et = xt.Elem().Underlying().(*types.Array).Elem()
				// array inside a struct field: the containing field changes
				if fa, ok := a.X.(*ssa.FieldAddr); ok {
					markStoreField(u, li, fa)
				}
			}
			if et != nil {
				k, srt := u.elemsKey(et)
				li.modHeap[k] = srt
			}
		default:
			// store through a pointer held in a cell/parameter (pointer-to-scalar):
			// conservatively all ghost cells of that type
			for c := range u.ghosts {
				li.modCells[c] = true
			}
			if pt, ok := addr.Type().Underlying().(*types.Pointer); ok && isStructType(pt.Elem()) {
				u.markStructKeys(li, pt.Elem())
			}
		}
	}
	scanFn = func(fn *ssa.Function, blocks []*ssa.BasicBlock, depth int) {
		for _, b := range blocks {
			for _, ins := range b.Instrs {
				switch x := ins.(type) {
				case *ssa.Alloc:
					li.modCells[x] = true
				case *ssa.Store:
					markStore(x.Addr)
				case *ssa.MapUpdate:
					li.modAll = true
				case *ssa.Next:
					if rg, ok := x.Iter.(*ssa.Range); ok {
						li.modCells[u.rangeCell(rg)] = true
					}
				case ssa.CallInstruction:
					if _, isDefer := x.(*ssa.Defer); isDefer {
						continue
					}
					u.callMods(fr, li, x.Common(), depth, scanFn)
				}
			}
		}
	}
	var blocks []*ssa.BasicBlock
	for b := range li.body {
		blocks = append(blocks, b)
	}
	scanFn(fr.fn, blocks, 0)
}

func markStoreField(u *Unit, li *loopInfo, fa *ssa.FieldAddr) {
	r := fa.X
	for {
		if x, ok := r.(*ssa.FieldAddr); ok {
			r = x.X
			continue
		}
		break
	}
	if al, ok := r.(*ssa.Alloc); ok {
		li.modCells[al] = true
		return
	}
	st := fa.X.Type().Underlying().(*types.Pointer).Elem()
	u.markFieldKeys(li, st, fa.Field)
}

func (u *Unit) markFieldKeys(li *loopInfo, st types.Type, field int) {
	dt := u.m.structInfo(st)
	if isStructType(dt.fields[field].typ) {
		u.markStructKeys(li, dt.fields[field].typ)
		return
	}
	li.modHeap[dt.heapKey(field)] = SArr(SInt, dt.fields[field].sort)
}

func (u *Unit) markStructKeys(li *loopInfo, st types.Type) {
	dt := u.m.structInfo(st)
	for i := range dt.fields {
		u.markFieldKeys(li, st, i)
	}
}

// ------------------------------------------------------------ execution

func (u *Unit) newFrame(fn *ssa.Function, con *Contract, depth int) *Frame {
	fr := &Frame{fn: fn, con: con, vals: map[ssa.Value]Val{}, depth: depth, deferAt: map[*ssa.Defer][]Val{}, paramVals: map[string]Val{},
		aliases: map[*ssa.BasicBlock]map[*ssa.Alloc]*ssa.Alloc{}}
	fr.order, fr.loops = u.analyze(fn)
	u.rangeAliases(fr)
	return fr
}

// execBody runs fn's CFG from st0 and returns the return points.
func (u *Unit) execBody(fr *Frame, st0 *State) []retPoint {
	if len(fr.fn.Blocks) == 0 {
		panic(u.errf("function %s has no body", fr.fn))
	}
	fr.entry = st0.clone()
	incoming := map[*ssa.BasicBlock][]inEdge{}
	incoming[fr.fn.Blocks[0]] = []inEdge{{st: st0, from: nil}}
	var rets []retPoint
	for _, b := range fr.order {
		ins := incoming[b]
		li := fr.loops[b]
		var fwd, back []inEdge
		for _, e := range ins {
			fwd = append(fwd, e)
		}
		_ = back
		if len(fwd) == 0 {
			continue // unreachable
		}
		st := u.mergeStates(fwd)
		if isFalse(st.guard) {
			continue
		}
		// phi nodes
		preds := fwd
		if li != nil {
			st = u.enterLoop(fr, li, st)
		}
		for _, ins := range b.Instrs {
			phi, ok := ins.(*ssa.Phi)
			if !ok {
				break
			}
			if li != nil {
				panic(u.errf("phi at loop header is outside the subset"))
			}
			var vals []Val
			var gs []*Term
			for _, e := range preds {
				for i, p := range b.Preds {
					if p == e.from {
						vals = append(vals, u.value(fr, phi.Edges[i]))
						gs = append(gs, e.st.guard)
						break
					}
				}
			}
			v, ok := u.mergeVals(vals, gs)
			if !ok {
				panic(u.errf("cannot merge phi %s", phi.Name()))
			}
			fr.vals[phi] = v
		}
		// assertions at labelled statements (cut points without havoc)
		if fr.con != nil && li == nil {
			var ats []*Clause
			for _, cl := range fr.con.clauses {
				if cl.kind == "at" && cl.at == b.Comment && cl.at != "return" {
					ats = append(ats, cl)
				}
			}
			for _, cl := range ats {
				g := u.evalClause(fr, st, cl, nil)
				u.oblige("assert", cl.at+"-"+labelOr(cl, ats), st, g, token.NoPos, cl.text)
			}
		}
		// straight-line instructions
		alive := true
		for _, ins := range b.Instrs {
			if _, ok := ins.(*ssa.Phi); ok {
				continue
			}
			switch ins.(type) {
			case *ssa.If, *ssa.Jump, *ssa.Return:
				u.callAsserts(fr, st, b)
			}
			switch x := ins.(type) {
			case *ssa.If:
				c := u.value(fr, x.Cond).(*Term)
				tb := u.m.tb
				u.pushEdge(fr, incoming, &rets, b, b.Succs[0], st.withGuard(tb.And(st.guard, c)))
				u.pushEdge(fr, incoming, &rets, b, b.Succs[1], st.withGuard(tb.And(st.guard, tb.Not(c))))
				alive = false
			case *ssa.Jump:
				u.pushEdge(fr, incoming, &rets, b, b.Succs[0], st)
				alive = false
			case *ssa.Return:
				var vals []Val
				for _, r := range x.Results {
					vals = append(vals, u.value(fr, r))
				}
				if fr.top && fr.con != nil {
					var ats []*Clause
					for _, cl := range fr.con.clauses {
						if cl.kind == "at" && cl.retPos.IsValid() && cl.retPos == x.Pos() {
							ats = append(ats, cl)
						}
					}
					for _, cl := range ats {
						fenv := u.frameEnv(fr, st, nil)
						for i, r := range u.ci.results {
							if i < len(vals) {
								fenv.vars[r] = vals[i]
							}
						}
						if len(vals) == 1 {
							fenv.vars["result"] = vals[0]
						}
						g := u.evalIn(fenv, cl)
						u.oblige("assert", cl.at+"-"+labelOr(cl, ats), st, g, token.NoPos, cl.text)
					}
				}
				rets = append(rets, retPoint{st: st, vals: vals})
				alive = false
			case *ssa.Panic:
				u.panicAt(fr, st, x)
				alive = false
			default:
				u.step(fr, st, ins)
				if isFalse(st.guard) {
					alive = false
				}
			}
			if !alive {
				break
			}
		}
	}
	return rets
}

func (u *Unit) pushEdge(fr *Frame, incoming map[*ssa.BasicBlock][]inEdge, rets *[]retPoint, from, to *ssa.BasicBlock, st *State) {
	if isFalse(st.guard) {
		return
	}
	if to.Dominates(from) { // back edge
		li := fr.loops[to]
		u.closeLoop(fr, li, st, from)
		return
	}
	incoming[to] = append(incoming[to], inEdge{st: st, from: from})
}

// mergeRets merges return points into one state and value list.
func (u *Unit) mergeRets(rets []retPoint) (*State, []Val, bool) {
	if len(rets) == 0 {
		return nil, nil, false
	}
	var ins []inEdge
	for _, r := range rets {
		ins = append(ins, inEdge{st: r.st})
	}
	st := u.mergeStates(ins)
	n := len(rets[0].vals)
	vals := make([]Val, n)
	for i := 0; i < n; i++ {
		var vs []Val
		var gs []*Term
		for _, r := range rets {
			vs = append(vs, r.vals[i])
			gs = append(gs, r.st.guard)
		}
		v, ok := u.mergeVals(vs, gs)
		if !ok {
			panic(u.errf("cannot merge return values"))
		}
		vals[i] = v
	}
	return st, vals, true
}

func (u *Unit) panicAt(fr *Frame, st *State, x *ssa.Panic) {
	desc := "panic"
	if mi, ok := x.X.(*ssa.MakeInterface); ok {
		if c, ok := mi.X.(*ssa.Const); ok && c.Value != nil && c.Value.Kind() == constant.String {
			desc = "panic(" + constant.StringVal(c.Value) + ")"
		}
	}
	// documented misuse panics: `panics when` clauses of the top-level contract
	if fr.top && u.con != nil {
		for _, cl := range u.con.get("panics") {
			_ = cl
		}
	}
	u.oblige("unreachable", "", st, u.m.tb.False(), x.Pos(), desc)
}

// value evaluates an SSA value in the frame.
func (u *Unit) value(fr *Frame, v ssa.Value) Val {
	switch x := v.(type) {
	case *ssa.Const:
		return u.constVal(x)
	case *ssa.Global:
		return &Ptr{kind: pGlobal, glob: x, base: x.Type().Underlying().(*types.Pointer).Elem(), typ: x.Type().Underlying().(*types.Pointer).Elem()}
	case *ssa.Function:
		return &FuncVal{fn: x}
	case *ssa.Builtin:
		return x
	case *ssa.FreeVar:
		for i, fv := range fr.fn.FreeVars {
			if fv == x {
				return fr.binds[i]
			}
		}
	}
	if r, ok := fr.vals[v]; ok {
		return r
	}
	panic(u.errf("no value for %s (%T) in %s", v.Name(), v, fr.fn.Name()))
}

func (u *Unit) constVal(c *ssa.Const) Val {
	t := c.Type()
	if c.Value == nil {
		if _, ok := t.Underlying().(*types.Pointer); ok {
			return u.m.tb.Int(0)
		}
		if _, ok := t.Underlying().(*types.Signature); ok {
			return u.m.tb.Int(0)
		}
		return u.m.Zero(t)
	}
	return u.m.ConstOf(c.Value, t)
}

func (u *Unit) term(fr *Frame, v ssa.Value) *Term {
	x := u.value(fr, v)
	t, ok := x.(*Term)
	if !ok {
		panic(u.errf("value %s (%s) is not a term but %T", v.Name(), v.Type(), x))
	}
	return t
}

// freshOfType makes an unconstrained value of Go type t (with its typing facts).
func (u *Unit) freshOfType(hint string, t types.Type, guard *Term) *Term {
	v := u.m.tb.Fresh(hint, u.m.sortOf(t))
	u.assumeTyping(guard, v, t, nil)
	return v
}

// freshOfTypeAt: as freshOfType, with the references it holds allocated in st.
func (u *Unit) freshOfTypeAt(st *State, hint string, t types.Type) *Term {
	v := u.m.tb.Fresh(hint, u.m.sortOf(t))
	u.assumeTyping(st.guard, v, t, st)
	return v
}

// assumeTyping: the typing invariant of a value of Go type t; with a state, the
// references it holds are allocated in that state (memory safety).
func (u *Unit) assumeTyping(guard *Term, v *Term, t types.Type, st *State) {
	var al *Term
	if st != nil && !u.quiet {
		al = u.allocSet(st)
	}
	u.assumeTypingIn(guard, v, t, al)
}

// assumeTypingIn: as assumeTyping, with the allocation set the references are
// known to belong to given explicitly (nil: no allocation fact).
func (u *Unit) assumeTypingIn(guard *Term, v *Term, t types.Type, al *Term) {
	if u.quiet || v.bound {
		return
	}
	allocd := func(ref *Term) {
		if al != nil {
			u.assume(guard, u.m.tb.Or(u.m.tb.Eq(ref, u.m.tb.Int(0)), u.m.tb.Select(al, ref)))
		}
	}
	if _, ok := t.(*types.TypeParam); ok {
		u.assume(guard, u.m.SeqWF(v))
		return
	}
	switch tt := t.Underlying().(type) {
	case *types.Basic:
		if isString(t) {
			u.assume(guard, u.m.SeqWF(v))
		} else {
			u.assume(guard, u.m.InRange(v, t))
		}
	case *types.Slice:
		u.assume(guard, u.m.SliceWF(v))
		allocd(u.m.SliceRef(v))
	case *types.Pointer, *types.Map:
		u.assume(guard, u.m.tb.Le(u.m.tb.Int(0), v))
		allocd(v)
	case *types.Signature, *types.Chan:
		u.assume(guard, u.m.tb.Le(u.m.tb.Int(0), v))
	case *types.Struct:
		for i := 0; i < tt.NumFields(); i++ {
			u.assumeTypingIn(guard, u.m.StructField(v, t, i), tt.Field(i).Type(), al)
		}
	}
}

func (u *Unit) step(fr *Frame, st *State, ins ssa.Instruction) {
	m := u.m
	tb := m.tb
	switch x := ins.(type) {
	case *ssa.DebugRef:
		return
	case *ssa.Alloc:
		et := x.Type().Underlying().(*types.Pointer).Elem()
		if at, ok := et.Underlying().(*types.Array); ok {
			// arrays in memory live in the element heap so that they can be sliced
			ref := u.freshRef(st, x.Comment)
			sl := m.MkSlice(ref, m.IxConst(0), m.IxConst(at.Len()), m.IxConst(at.Len()))
			u.setElemsArr(st, ref, at.Elem(), m.Zero(et))
			fr.vals[x] = &arrayObj{slice: sl, typ: at}
			return
		}
		if x.Heap && isStructType(et) {
			ref := u.freshRef(st, x.Comment)
			u.storeStruct(st, ref, et, m.Zero(et))
			fr.vals[x] = ref
			return
		}
		st.cells[x] = u.zeroVal(et)
		fr.vals[x] = &Ptr{kind: pCell, cell: x, base: et, typ: et}
	case *ssa.Store:
		addr := u.value(fr, x.Addr)
		val := u.value(fr, x.Val)
		switch a := addr.(type) {
		case *Ptr:
			u.store(st, a, val)
		case *Term:
			// pointer to struct object
			et := x.Addr.Type().Underlying().(*types.Pointer).Elem()
			u.nilCheck(st, a, x.Pos())
			u.storeStruct(st, a, et, val.(*Term))
		default:
			panic(u.errf("store through %T", addr))
		}
	case *ssa.UnOp:
		fr.vals[x] = u.unop(fr, st, x)
	case *ssa.BinOp:
		fr.vals[x] = u.binop(fr, st, x)
	case *ssa.Convert:
		fr.vals[x] = u.convert(fr, st, x)
	case *ssa.ChangeType:
		fr.vals[x] = u.value(fr, x.X)
	case *ssa.MultiConvert:
		// conversions of type-parameter typed values ([]byte|string): already sequences
		v := u.value(fr, x.X)
		fr.vals[x] = u.toSeqIfNeeded(st, v, x.X.Type(), x.Type())
	case *ssa.ChangeInterface:
		fr.vals[x] = u.value(fr, x.X)
	case *ssa.MakeInterface:
		fr.vals[x] = u.makeIface(fr, st, x)
	case *ssa.FieldAddr:
		fr.vals[x] = u.fieldAddr(fr, st, x)
	case *ssa.Field:
		v := u.term(fr, x.X)
		fr.vals[x] = m.StructField(v, x.X.Type(), x.Field)
	case *ssa.IndexAddr:
		fr.vals[x] = u.indexAddr(fr, st, x)
	case *ssa.Index:
		fr.vals[x] = u.index(fr, st, x)
	case *ssa.Lookup:
		if isString(x.X.Type()) {
			s := u.term(fr, x.X)
			i := u.term(fr, x.Index)
			u.boundsCheck(st, i, m.SeqLen(s), x.Pos(), "string index")
			fr.vals[x] = m.SeqAt(s, i)
			return
		}
		u.noteHavoc("map lookup")
		if x.CommaOk {
			fr.vals[x] = Tuple{u.freshOfType("mapval", x.Type().(*types.Tuple).At(0).Type(), st.guard), tb.Fresh("mapok", SBool)}
		} else {
			fr.vals[x] = u.freshOfType("mapval", x.Type(), st.guard)
		}
	case *ssa.Slice:
		fr.vals[x] = u.sliceOp(fr, st, x)
	case *ssa.Extract:
		fr.vals[x] = u.value(fr, x.Tuple).(Tuple)[x.Index]
	case *ssa.Range:
		// range over a string: the iterator is a hidden cell holding the byte position
		if _, isMap := x.X.Type().Underlying().(*types.Map); isMap && u.con != nil && u.con.onlyAsserts != "" {
			// thin contracts only: a map iteration yields an unknown number of unconstrained pairs
			fr.vals[x] = &mapIter{}
			u.noteHavoc("range over a map (keys and values unconstrained)")
			break
		}
		if !isString(x.X.Type()) {
			panic(u.errf("range over %s is outside the subset", x.X.Type()))
		}
		g := u.rangeCell(x)
		st.cells[g] = u.m.IxConst(0)
		fr.vals[x] = &rangeIter{cell: g, str: u.term(fr, x.X)}
	case *ssa.Next:
		if _, isMapIter := u.value(fr, x.Iter).(*mapIter); isMapIter {
			tup := x.Type().(*types.Tuple)
			okT := tb.Fresh("mapnext_ok", SBool)
			fresh := func(t types.Type, hint string) Val {
				if b, ok := t.(*types.Basic); ok && b.Kind() == types.Invalid {
					return undefVal{} // the component is not used by the loop
				}
				return u.freshVal(st, t, hint)
			}
			fr.vals[x] = Tuple{okT, fresh(tup.At(1).Type(), "mapnext_key"), fresh(tup.At(2).Type(), "mapnext_val")}
			break
		}
		it, ok := u.value(fr, x.Iter).(*rangeIter)
		if !ok || !x.IsString {
			panic(u.errf("Next over a non-string iterator is outside the subset"))
		}
		// Abstraction of string iteration (sound over-approximation): the next rune
		// starts at the current position; it is some rune of 1..4 bytes that fits in
		// the string; an ASCII byte decodes to itself with width 1.
		pos := st.cells[it.cell].(*Term)
		ln := m.SeqLen(it.str)
		okT := m.IxLt(pos, ln)
		w := tb.Fresh("rangewidth", SInt)
		r := tb.Fresh("rangerune", SInt)
		c0 := m.SeqAt(it.str, pos)
		g := tb.And(st.guard, okT)
		u.assume(g, tb.And(tb.Le(tb.Int(1), w), tb.Le(w, tb.Int(4)), m.IxLe(m.IxAdd(pos, w), ln)))
		u.assume(g, tb.And(tb.Le(tb.Int(0), r), tb.Le(r, tb.Int(0x10ffff))))
		u.assume(g, tb.Implies(tb.Lt(c0, tb.Int(0x80)), tb.And(tb.Eq(r, c0), tb.Eq(w, tb.Int(1)))))
		u.assume(g, tb.Implies(tb.Le(tb.Int(0x80), c0), tb.Le(tb.Int(0x80), r)))
		st.cells[it.cell] = tb.Ite(okT, m.IxAdd(pos, w), pos)
		fr.vals[x] = Tuple{okT, pos, r}
	case *ssa.MakeClosure:
		fv := &FuncVal{fn: x.Fn.(*ssa.Function)}
		for _, b := range x.Bindings {
			fv.binds = append(fv.binds, u.value(fr, b))
		}
		fr.vals[x] = fv
	case *ssa.MakeSlice:
		ln := u.term(fr, x.Len)
		cp := u.term(fr, x.Cap)
		ref := u.freshRef(st, "make")
		et := x.Type().Underlying().(*types.Slice).Elem()
		u.oblige("bounds", "", st, tb.And(m.IxLe(m.IxConst(0), ln), m.IxLe(ln, cp)), x.Pos(), "make: 0 <= len <= cap")
		u.setElemsArr(st, ref, et, m.Zero(types.NewArray(et, 0)))
		fr.vals[x] = m.MkSlice(ref, m.IxConst(0), ln, cp)
	case *ssa.MakeMap:
		u.noteHavoc("make(map)")
		fr.vals[x] = u.freshRef(st, "map")
	case *ssa.MapUpdate:
		u.noteHavoc("map update")
	case *ssa.TypeAssert:
		fr.vals[x] = u.typeAssert(fr, st, x)
	case *ssa.Call:
		u.callAssertsBefore(fr, st, x)
		fr.vals[x] = u.call(fr, st, x.Common(), x, x.Pos())
	case *ssa.Defer:
		var args []Val
		for _, a := range x.Call.Args {
			args = append(args, u.value(fr, a))
		}
		if !x.Call.IsInvoke() {
			args = append([]Val{u.value(fr, x.Call.Value)}, args...)
		}
		fr.deferAt[x] = args
		fr.defers = append(fr.defers, x)
		if fr.deferGuard == nil {
			fr.deferGuard = map[*ssa.Defer]*Term{}
		}
		fr.deferGuard[x] = st.guard // the paths on which this defer statement was executed
	case *ssa.RunDefers:
		for i := len(fr.defers) - 1; i >= 0; i-- {
			d := fr.defers[i]
			g := fr.deferGuard[d]
			if g == nil || isTrue(g) {
				u.callDeferred(fr, st, d)
				continue
			}
			// a defer registered conditionally runs only on the paths that registered it
			yes := st.clone()
			yes.guard = tb.And(st.guard, g)
			no := st.clone()
			no.guard = tb.And(st.guard, tb.Not(g))
			if !isFalse(yes.guard) {
				u.callDeferred(fr, yes, d)
			}
			merged := u.mergeStates([]inEdge{{st: yes}, {st: no}})
			*st = *merged
		}
	case *ssa.Select, *ssa.Send, *ssa.Go:
		panic(u.errf("%T is outside the subset", ins))
	case *ssa.SliceToArrayPointer:
		panic(u.errf("slice to array pointer is outside the subset"))
	default:
		panic(u.errf("unsupported instruction %T: %s", ins, ins))
	}
}

// arrayObj is the value of an Alloc of array type: a pointer to an array held
// in the element heap.
type arrayObj struct {
	slice *Term
	typ   *types.Array
}

func (u *Unit) zeroVal(t types.Type) Val {
	if pt, ok := t.Underlying().(*types.Pointer); ok && !isStructType(pt.Elem()) {
		return nil // nil pointer-to-scalar: executor-level
	}
	if _, ok := t.Underlying().(*types.Signature); ok {
		return nil
	}
	return u.m.Zero(t)
}

// Allocation is modelled by a ghost set ALLOC (an array ref -> Bool kept with
// the heap): a fresh reference is one that is not in the set at the moment of
// allocation, so it differs from every reference that exists at that moment —
// including those allocated by earlier loop iterations or by callees.
const allocHeapKey = "ALLOC"

func (u *Unit) allocSet(st *State) *Term { return u.heapGet(st, allocHeapKey, SArr(SInt, SBool)) }
func (u *Unit) allocSet0() *Term       { return u.m.tb.Const("H_ALLOC@0", SArr(SInt, SBool)) }
func (u *Unit) isAlloc0(r *Term) *Term { return u.m.tb.Select(u.allocSet0(), r) }

func (u *Unit) freshRef(st *State, hint string) *Term {
	tb := u.m.tb
	r := tb.Fresh("ref_"+hint, SInt)
	al := u.allocSet(st)
	u.assume(st.guard, tb.And(tb.Lt(tb.Int(0), r), tb.Not(tb.Select(al, r))))
	if !u.quiet {
		u.heapSet(st, allocHeapKey, tb.Store(al, r, tb.True()))
	}
	return r
}

// allocGrows: allocation sets only grow (assumed whenever the set is havocked).
func (u *Unit) allocGrows(guard, before, after *Term) {
	if before == after {
		return
	}
	tb := u.m.tb
	r := tb.BoundVar("r", SInt)
	u.assume(guard, tb.Forall([]*Term{r}, tb.Implies(tb.Select(before, r), tb.Select(after, r))))
}

func (u *Unit) nilCheck(st *State, ref *Term, pos token.Pos) {
	tb := u.m.tb
	u.oblige("nil", "", st, tb.Not(tb.Eq(ref, tb.Int(0))), pos, "nil dereference")
}

func (u *Unit) boundsCheck(st *State, i, n *Term, pos token.Pos, what string) {
	m := u.m
	u.oblige("bounds", "", st, m.tb.And(m.IxLe(m.IxConst(0), i), m.IxLt(i, n)), pos, what)
}

func (u *Unit) noteHavoc(what string) {
	u.havocs[what]++
}

func (u *Unit) unop(fr *Frame, st *State, x *ssa.UnOp) Val {
	m := u.m
	switch x.Op {
	case token.MUL: // load
		addr := u.value(fr, x.X)
		switch a := addr.(type) {
		case *Ptr:
			return u.load(st, a)
		case *Term:
			et := x.X.Type().Underlying().(*types.Pointer).Elem()
			u.nilCheck(st, a, x.Pos())
			return u.loadStruct(st, a, et)
		case *arrayObj:
			return u.elemsArr(st, m.SliceRef(a.slice), a.typ.Elem())
		case nil:
			u.oblige("nil", "", st, m.tb.False(), x.Pos(), "nil dereference")
			return u.freshOfType("undef", x.Type(), st.guard)
		}
		panic(u.errf("load through %T", addr))
	case token.NOT:
		return m.tb.Not(u.term(fr, x.X))
	case token.SUB:
		if isFloat(x.Type()) {
			m.UF("f64_neg", SF64, SF64)
			return m.tb.App("f64_neg", SF64, u.term(fr, x.X))
		}
		r := m.Neg(u.term(fr, x.X), x.Type())
		if r.overflow != nil && u.checkOverflow {
			u.oblige("overflow", "", st, r.overflow, x.Pos(), "negation overflow")
		}
		return r.val
	case token.XOR:
		return m.BitNot(u.term(fr, x.X), x.Type())
	}
	panic(u.errf("unsupported unary operator %s", x.Op))
}

func (u *Unit) binop(fr *Frame, st *State, x *ssa.BinOp) Val {
	m := u.m
	tb := m.tb
	xt := x.X.Type()
	switch x.Op {
	case token.EQL, token.NEQ:
		a, b := u.value(fr, x.X), u.value(fr, x.Y)
		eq := u.equal(st, a, b, xt, x.Pos())
		if x.Op == token.NEQ {
			return tb.Not(eq)
		}
		return eq
	case token.LSS, token.LEQ, token.GTR, token.GEQ:
		if isString(xt) {
			m.UF("str_lt", SBool, m.sortOf(xt), m.sortOf(xt))
			a, b := u.term(fr, x.X), u.term(fr, x.Y)
			switch x.Op {
			case token.LSS:
				return tb.App("str_lt", SBool, a, b)
			case token.GTR:
				return tb.App("str_lt", SBool, b, a)
			case token.LEQ:
				return tb.Not(tb.App("str_lt", SBool, b, a))
			default:
				return tb.Not(tb.App("str_lt", SBool, a, b))
			}
		}
		if isFloat(xt) {
			m.UF("f64_lt", SBool, SF64, SF64)
			m.UF("f64_le", SBool, SF64, SF64)
			a, b := u.term(fr, x.X), u.term(fr, x.Y)
			switch x.Op {
			case token.LSS:
				return tb.App("f64_lt", SBool, a, b)
			case token.GTR:
				return tb.App("f64_lt", SBool, b, a)
			case token.LEQ:
				return tb.App("f64_le", SBool, a, b)
			default:
				return tb.App("f64_le", SBool, b, a)
			}
		}
		return m.Compare(x.Op, u.term(fr, x.X), u.term(fr, x.Y), xt)
	}
	if isString(x.Type()) && x.Op == token.ADD {
		// string concatenation: only lengths are tracked
		a, b := u.term(fr, x.X), u.term(fr, x.Y)
		r := tb.Fresh("concat", a.sort)
		u.assume(st.guard, m.SeqWF(r))
		u.assume(st.guard, tb.Eq(m.SeqLen(r), m.IxAdd(m.SeqLen(a), m.SeqLen(b))))
		return r
	}
	if isFloat(x.Type()) {
		name := "f64_" + map[token.Token]string{token.ADD: "add", token.SUB: "sub", token.MUL: "mul", token.QUO: "div"}[x.Op]
		m.UF(name, SF64, SF64, SF64)
		return tb.App(name, SF64, u.term(fr, x.X), u.term(fr, x.Y))
	}
	if isBool(x.Type()) {
		a, b := u.term(fr, x.X), u.term(fr, x.Y)
		switch x.Op {
		case token.AND:
			return tb.And(a, b)
		case token.OR:
			return tb.Or(a, b)
		}
	}
	r := m.BinOp(x.Op, u.term(fr, x.X), u.term(fr, x.Y), x.Type(), x.Y.Type())
	if r.div0 != nil {
		u.oblige("div0", "", st, r.div0, x.Pos(), "division by zero")
	}
	if r.overflow != nil && u.checkOverflow {
		u.oblige("overflow", "", st, r.overflow, x.Pos(), "signed overflow in "+x.Op.String())
	}
	return r.val
}

// equal implements == on values of Go type t.
func (u *Unit) equal(st *State, a, b Val, t types.Type, pos token.Pos) *Term {
	m := u.m
	tb := m.tb
	at, aok := a.(*Term)
	bt, bok := b.(*Term)
	if !aok || !bok {
		// pointers to scalars / funcs: nil comparisons only
		if a == nil && b == nil {
			return tb.True()
		}
		if (a == nil) != (b == nil) {
			// a non-nil executor-level pointer or function
			return tb.False()
		}
		if sameVal(a, b) {
			return tb.True()
		}
		pa, ok1 := a.(*Ptr)
		pb, ok2 := b.(*Ptr)
		// merged pointers: compare each side
		if ok1 && pa.kind == pCond {
			return tb.Ite(pa.cond, u.equal(st, pa.pa, b, t, pos), u.equal(st, pa.pb, b, t, pos))
		}
		if ok2 && pb.kind == pCond {
			return tb.Ite(pb.cond, u.equal(st, a, pb.pa, t, pos), u.equal(st, a, pb.pb, t, pos))
		}
		if ok1 && pa.kind == pNil && bok {
			return tb.Eq(bt, tb.Int(0))
		}
		if ok2 && pb.kind == pNil && aok {
			return tb.Eq(at, tb.Int(0))
		}
		// an executor-level pointer (address of a local, field or element) is never nil
		if ok1 && bok {
			if v, isLit := bt.intLit(); isLit && v.Sign() == 0 {
				return tb.False()
			}
		}
		if ok2 && aok {
			if v, isLit := at.intLit(); isLit && v.Sign() == 0 {
				return tb.False()
			}
		}
		if ok1 && ok2 && pa.kind == pCell && pb.kind == pCell {
			return tb.Bool(pa.cell == pb.cell)
		}
		if ok1 && ok2 && pa.kind == pElem && pb.kind == pElem && len(pa.path) == 0 && len(pb.path) == 0 {
			// addresses of slice elements: same array and same absolute index
			return tb.And(tb.Eq(m.SliceRef(pa.slice), m.SliceRef(pb.slice)),
				tb.Eq(m.ElemIx(m.SliceOff(pa.slice), pa.idx), m.ElemIx(m.SliceOff(pb.slice), pb.idx)))
		}
		panic(u.errf("comparison of executor-level values %T and %T", a, b))
	}
	if isString(t) {
		return u.seqEqual(at, bt)
	}
	if _, ok := t.Underlying().(*types.Slice); ok {
		// only comparison with nil is legal Go
		nilS := m.NilSlice()
		other := at
		if at == nilS {
			other = bt
		}
		return tb.Eq(m.SliceRef(other), tb.Int(0))
	}
	return tb.Eq(at, bt)
}

// seqEqual: extensional equality of sequences (unfolded when a length is constant).
func (u *Unit) seqEqual(a, b *Term) *Term {
	m := u.m
	tb := m.tb
	lenEq := tb.Eq(m.SeqLen(a), m.SeqLen(b))
	constLen := func(t *Term) (int64, bool) {
		if v, ok := m.constVal(m.SeqLen(t)); ok && v.IsInt64() && v.Int64() <= 64 {
			return v.Int64(), true
		}
		return 0, false
	}
	n, ok := constLen(a)
	if !ok {
		n, ok = constLen(b)
	}
	if ok {
		cs := []*Term{lenEq}
		for i := int64(0); i < n; i++ {
			cs = append(cs, tb.Eq(m.SeqAt(a, m.IxConst(i)), m.SeqAt(b, m.IxConst(i))))
		}
		return tb.And(cs...)
	}
	i := tb.BoundVar("i", m.ixSort())
	body := tb.Implies(tb.And(m.IxLe(m.IxConst(0), i), m.IxLt(i, m.SeqLen(a))), tb.Eq(m.SeqAt(a, i), m.SeqAt(b, i)))
	return tb.And(lenEq, tb.Forall([]*Term{i}, body))
}

// sliceToSeq snapshots the contents of a slice as a pure sequence.
func (u *Unit) sliceToSeq(st *State, s *Term, elem types.Type) *Term {
	m := u.m
	sq := m.seqSort(elem)
	return m.MkSeq(sq, u.elemsArr(st, m.SliceRef(s), elem), m.SliceOff(s), m.SliceLen(s))
}

func (u *Unit) toSeqIfNeeded(st *State, v Val, from, to types.Type) Val {
	t, ok := v.(*Term)
	if !ok {
		return v
	}
	if t.sort == SSlice {
		if sl, ok := from.Underlying().(*types.Slice); ok {
			return u.sliceToSeq(st, t, sl.Elem())
		}
		return u.sliceToSeq(st, t, types.Typ[types.Uint8])
	}
	return v
}

func (u *Unit) convert(fr *Frame, st *State, x *ssa.Convert) Val {
	m := u.m
	from, to := x.X.Type(), x.Type()
	v := u.value(fr, x.X)
	_, fromInt := intTypeInfo(from)
	_, toInt := intTypeInfo(to)
	switch {
	case fromInt && toInt:
		return m.Convert(v.(*Term), from, to)
	case isString(to):
		if sl, ok := from.Underlying().(*types.Slice); ok {
			return u.sliceToSeq(st, v.(*Term), sl.Elem())
		}
		if isString(from) {
			return v
		}
		if _, ok := from.(*types.TypeParam); ok {
			return v
		}
		if fromInt { // string(rune)
			u.noteHavoc("string(rune)")
			return u.freshOfType("runestr", to, st.guard)
		}
	case isString(from) || isTypeParam(from):
		if sl, ok := to.Underlying().(*types.Slice); ok {
			// []byte(s): fresh backing store with the same contents
			s := v.(*Term)
			if s.sort == SSlice {
				return s
			}
			ref := u.freshRef(st, "bytes")
			u.setElemsArr(st, ref, sl.Elem(), m.SeqArr(s))
			return m.MkSlice(ref, m.SeqOff(s), m.SeqLen(s), m.SeqLen(s))
		}
	case isFloat(from) || isFloat(to):
		name := "conv_" + sanitize(from.String()) + "_to_" + sanitize(to.String())
		m.UF(name, m.sortOf(to), m.sortOf(from))
		r := m.tb.App(name, m.sortOf(to), v.(*Term))
		u.assume(st.guard, m.InRange(r, to))
		return r
	}
	if _, ok := to.Underlying().(*types.Pointer); ok {
		return v
	}
	if types.Identical(from.Underlying(), to.Underlying()) {
		return v
	}
	panic(u.errf("unsupported conversion %s -> %s", from, to))
}

func isTypeParam(t types.Type) bool { _, ok := t.(*types.TypeParam); return ok }

func (u *Unit) makeIface(fr *Frame, st *State, x *ssa.MakeInterface) Val {
	m := u.m
	tb := m.tb
	v := u.value(fr, x.X)
	ct := x.X.Type()
	tag := m.TypeTag(ct)
	switch vv := v.(type) {
	case *Term:
		if vv.sort == SInt {
			if _, isPtr := ct.Underlying().(*types.Pointer); isPtr {
				return tb.App("mkiface", SIface, tag, vv)
			}
		}
		// boxed non-pointer value: injective boxing function per sort
		name := "box_" + mangleSort(vv.sort)
		m.UF(name, SInt, vv.sort)
		return tb.App("mkiface", SIface, tag, tb.App(name, SInt, vv))
	default:
		r := tb.Fresh("boxed", SInt)
		return tb.App("mkiface", SIface, tag, r)
	}
}

func (u *Unit) typeAssert(fr *Frame, st *State, x *ssa.TypeAssert) Val {
	m := u.m
	tb := m.tb
	v := u.term(fr, x.X)
	if _, isIface := x.AssertedType.Underlying().(*types.Interface); isIface {
		if x.CommaOk {
			// ok is a function of the dynamic type tag; which known concrete types
			// implement the interface is decided by the type checker (ImplementsAxioms)
			name := "impl_" + sanitize(types.TypeString(x.AssertedType, nil))
			m.UF(name, SBool, SInt)
			m.ifaceAsserts[name] = x.AssertedType.Underlying().(*types.Interface)
			return Tuple{v, tb.App(name, SBool, m.IfaceTag(v))}
		}
		u.noteHavoc("type assertion to interface")
		u.oblige("assert-type", "", st, tb.False(), x.Pos(), "type assertion to interface type")
		return v
	}
	ok := tb.Eq(m.IfaceTag(v), m.TypeTag(x.AssertedType))
	var res Val
	if _, isPtr := x.AssertedType.Underlying().(*types.Pointer); isPtr {
		res = m.IfaceVal(v)
	} else {
		res = u.freshOfType("unboxed", x.AssertedType, st.guard)
		name := "box_" + mangleSort(res.(*Term).sort)
		m.UF(name, SInt, res.(*Term).sort)
		u.assume(tb.And(st.guard, ok), tb.Eq(tb.App(name, SInt, res.(*Term)), m.IfaceVal(v)))
	}
	if x.CommaOk {
		// a failed comma-ok assertion yields the zero value of the asserted type
		if rt, isTerm := res.(*Term); isTerm {
			res = tb.Ite(ok, rt, m.Zero(x.AssertedType))
		}
		return Tuple{res, ok}
	}
	u.oblige("assert-type", "", st, ok, x.Pos(), "type assertion "+x.AssertedType.String())
	return res
}

func (u *Unit) fieldAddr(fr *Frame, st *State, x *ssa.FieldAddr) Val {
	base := u.value(fr, x.X)
	stT := x.X.Type().Underlying().(*types.Pointer).Elem()
	ft := stT.Underlying().(*types.Struct).Field(x.Field).Type()
	switch b := base.(type) {
	case *Ptr:
		return b.extend(pathElem{field: x.Field}, ft)
	case *Term:
		u.nilCheck(st, b, x.Pos())
		dt := u.m.structInfo(stT)
		if isStructType(ft) {
			return u.subRef(dt, x.Field, b)
		}
		return &Ptr{kind: pHeapField, ref: b, dt: dt, field: x.Field, base: ft, typ: ft}
	case nil:
		u.oblige("nil", "", st, u.m.tb.False(), x.Pos(), "nil dereference")
		return nil
	}
	panic(u.errf("FieldAddr on %T", base))
}

func (u *Unit) indexAddr(fr *Frame, st *State, x *ssa.IndexAddr) Val {
	m := u.m
	base := u.value(fr, x.X)
	idx := u.ixTerm(fr, x.Index)
	switch xt := x.X.Type().Underlying().(type) {
	case *types.Slice:
		s := base.(*Term)
		if s.sort != SSlice { // spec mode: pure sequence
			return &Ptr{kind: pSeqElem, slice: s, idx: idx, base: xt.Elem(), typ: xt.Elem()}
		}
		u.boundsCheck(st, idx, m.SliceLen(s), x.Pos(), "slice index")
		return &Ptr{kind: pElem, slice: s, idx: idx, base: xt.Elem(), typ: xt.Elem()}
	case *types.Pointer:
		at := xt.Elem().Underlying().(*types.Array)
		switch b := base.(type) {
		case *arrayObj:
			u.boundsCheck(st, idx, m.IxConst(at.Len()), x.Pos(), "array index")
			return &Ptr{kind: pElem, slice: b.slice, idx: idx, base: at.Elem(), typ: at.Elem()}
		case *Ptr:
			u.boundsCheck(st, idx, m.IxConst(at.Len()), x.Pos(), "array index")
			return b.extend(pathElem{field: -1, idx: idx}, at.Elem())
		}
	}
	panic(u.errf("IndexAddr on %T of type %s", base, x.X.Type()))
}

// ixTerm evaluates an index/length operand as a Go int.
func (u *Unit) ixTerm(fr *Frame, v ssa.Value) *Term {
	t := u.term(fr, v)
	return u.m.Convert(t, v.Type(), tInt)
}

func (u *Unit) index(fr *Frame, st *State, x *ssa.Index) Val {
	m := u.m
	idx := u.ixTerm(fr, x.Index)
	base := u.term(fr, x.X)
	if isString(x.X.Type()) || isTypeParam(x.X.Type()) {
		u.boundsCheck(st, idx, m.SeqLen(base), x.Pos(), "string index")
		r := m.SeqAt(base, idx)
		u.assume(st.guard, m.InRange(r, x.Type()))
		return r
	}
	at := x.X.Type().Underlying().(*types.Array)
	u.boundsCheck(st, idx, m.IxConst(at.Len()), x.Pos(), "array index")
	r := m.tb.Select(base, idx)
	u.assume(st.guard, m.InRange(r, x.Type()))
	return r
}

func (u *Unit) sliceOp(fr *Frame, st *State, x *ssa.Slice) Val {
	m := u.m
	tb := m.tb
	base := u.value(fr, x.X)
	get := func(v ssa.Value, def *Term) *Term {
		if v == nil {
			return def
		}
		return u.ixTerm(fr, v)
	}
	zero := m.IxConst(0)
	if bt, ok := base.(*Term); ok && bt.sort != SSlice {
		s := bt
		lo := get(x.Low, zero)
		hi := get(x.High, m.SeqLen(s))
		u.oblige("bounds", "", st, tb.And(m.IxLe(zero, lo), m.IxLe(lo, hi), m.IxLe(hi, m.SeqLen(s))), x.Pos(), "string slice bounds")
		return m.MkSeq(s.sort, m.SeqArr(s), m.IxAdd(m.SeqOff(s), lo), m.IxSub(hi, lo))
	}
	var s *Term
	switch b := base.(type) {
	case *Term:
		s = b
	case *arrayObj:
		s = b.slice
	default:
		panic(u.errf("slice of %T", base))
	}
	lo := get(x.Low, zero)
	hi := get(x.High, m.SliceLen(s))
	mx := get(x.Max, m.SliceCap(s))
	u.oblige("bounds", "", st, tb.And(m.IxLe(zero, lo), m.IxLe(lo, hi), m.IxLe(hi, mx), m.IxLe(mx, m.SliceCap(s))), x.Pos(), "slice bounds")
	return m.MkSlice(m.SliceRef(s), m.IxAdd(m.SliceOff(s), lo), m.IxSub(hi, lo), m.IxSub(mx, lo))
}

// globalValue models package-level variables: tables from their initialisers,
// other variables as immutable uninterpreted constants (scanned: never stored
// outside init).
func (u *Unit) globalValue(g *ssa.Global) Val {
	m := u.m
	et := g.Type().Underlying().(*types.Pointer).Elem()
	name := "G_" + sanitize(g.Pkg.Pkg.Name()+"."+g.Name())
	u.globalsUsed[g] = true
	if u.eng.storedOutsideInit[g] {
		u.noteHavoc("mutable global " + g.Name())
		return u.freshOfType("glob_"+g.Name(), et, m.tb.True())
	}
	c := m.tb.Const(name, m.sortOf(et))
	if tab, ok := u.eng.tables[g]; ok && !u.tableDone[g] {
		u.tableDone[g] = true
		at := et.Underlying().(*types.Array)
		// run-length form of the initialiser: maximal index intervals of equal value
		type run struct {
			lo, hi int
			v      int64
		}
		var runs []run
		for i, v := range tab {
			if n := len(runs); n > 0 && runs[n-1].v == v {
				runs[n-1].hi = i
			} else {
				runs = append(runs, run{i, i, v})
			}
		}
		if len(runs) <= 48 {
			// one quantified axiom: table[i] = decision list over the runs (exactly the initialiser)
			tb := m.tb
			i := tb.BoundVar("ti", m.ixSort())
			val := m.IntConst(big.NewInt(runs[len(runs)-1].v), at.Elem())
			for k := len(runs) - 2; k >= 0; k-- {
				val = tb.Ite(m.IxLe(i, m.IxConst(int64(runs[k].hi))), m.IntConst(big.NewInt(runs[k].v), at.Elem()), val)
			}
			in := tb.And(m.IxLe(m.IxConst(0), i), m.IxLt(i, m.IxConst(int64(len(tab)))))
			m.addAxiom(tb.Forall([]*Term{i}, tb.Implies(in, tb.Eq(tb.Select(c, i), val))))
		} else {
			for i, v := range tab {
				m.addAxiom(m.tb.Eq(m.tb.Select(c, m.IxConst(int64(i))), m.IntConst(big.NewInt(v), at.Elem())))
			}
		}
	}
	if _, isIface := et.Underlying().(*types.Interface); isIface && !u.tableDone[g] {
		// error sentinels: non-nil, pairwise distinct
		u.tableDone[g] = true
		m.addAxiom(m.tb.Not(m.tb.Eq(c, m.NilIface())))
		if k, ok := u.eng.globalInit[g]; ok {
			m.addAxiom(m.tb.Eq(m.IfaceTag(c), m.TypeTagByName(k)))
			m.addAxiom(m.tb.Lt(m.tb.Int(0), m.IfaceVal(c)))
		}
		for o := range u.sentinels {
			if o != g {
				oc := m.tb.Const("G_"+sanitize(o.Pkg.Pkg.Name()+"."+o.Name()), SIface)
				m.addAxiom(m.tb.Not(m.tb.Eq(c, oc)))
			}
		}
		u.sentinels[g] = true
	}
	return c
}

func describe(ins ssa.Instruction) string {
	s := ins.String()
	if len(s) > 80 {
		s = s[:80]
	}
	return strings.TrimSpace(s)
}

// rangeAliases: in `for i := range n` / `for i, c := range s` loops the header
// is reached before the range variable is assigned from the hidden iteration
// cell; invariants naming the range variable refer to that cell.
func (u *Unit) rangeAliases(fr *Frame) {
	for h := range fr.loops {
		for b := range fr.loops[h].body {
			for _, ins := range b.Instrs {
				st, ok := ins.(*ssa.Store)
				if !ok {
					continue
				}
				dst, ok := st.Addr.(*ssa.Alloc)
				if !ok {
					continue
				}
				ld, ok := st.Val.(*ssa.UnOp)
				if !ok || ld.Op != token.MUL {
					continue
				}
				src, ok := ld.X.(*ssa.Alloc)
				if !ok || !(src.Comment == "rangeint.iter" || src.Comment == "rangeindex") {
					continue
				}
				if fr.aliases[h] == nil {
					fr.aliases[h] = map[*ssa.Alloc]*ssa.Alloc{}
				}
				if b == h || src.Comment == "rangeint.iter" {
					fr.aliases[h][dst] = src
				}
			}
		}
	}
}

// callAssertsBefore: `at call NAME#K assert-before|assume-before E` clauses are
// evaluated in the state just before the call instruction.
func (u *Unit) callAssertsBefore(fr *Frame, st *State, c *ssa.Call) {
	if fr.con == nil || c.Pos() == token.NoPos {
		return
	}
	var ats []*Clause
	for _, cl := range fr.con.clauses {
		if cl.kind == "at" && cl.before && cl.callPos.IsValid() && c.Common().Pos() == cl.callPos {
			ats = append(ats, cl)
		}
	}
	for _, cl := range ats {
		env := u.frameEnv(fr, st, nil)
		// callArgN: the arguments of the call (a method call's receiver is not counted)
		cargs := c.Common().Args
		if !c.Common().IsInvoke() && c.Common().Signature().Recv() != nil && len(cargs) > 0 {
			cargs = cargs[1:]
		}
		for i, a := range cargs {
			func() {
				defer func() { recover() }()
				env.vars[fmt.Sprintf("callArg%d", i)] = u.value(fr, a)
			}()
		}
		g := u.evalIn(env, cl)
		if cl.assumeAt {
			u.assume(st.guard, g)
			u.noteHavoc("assumed invariant in " + u.name + ": " + cl.text)
			continue
		}
		u.oblige("assert", strings.TrimPrefix(cl.at, "call:")+"-"+labelOr(cl, ats), st, g, token.NoPos, cl.text)
	}
}

// callAsserts: `at call NAME#K assert E` clauses are checked at the end of the
// basic block that contains the call (after its results were stored).
func (u *Unit) callAsserts(fr *Frame, st *State, b *ssa.BasicBlock) {
	if fr.con == nil {
		return
	}
	var ats []*Clause
	for _, cl := range fr.con.clauses {
		if cl.kind != "at" || !cl.callPos.IsValid() || cl.before {
			continue
		}
		for _, ins := range b.Instrs {
			if c, ok := ins.(*ssa.Call); ok && c.Pos() != token.NoPos {
				// the call instruction's position is that of its left parenthesis
				if c.Common().Pos() == cl.callPos {
					ats = append(ats, cl)
				}
			}
		}
	}
	for _, cl := range ats {
		env := u.frameEnv(fr, st, nil)
		for _, ins := range b.Instrs {
			if c, ok := ins.(*ssa.Call); ok && c.Common().Pos() == cl.callPos {
				switch v := fr.vals[c].(type) {
				case Tuple:
					for i, x := range v {
						env.vars[fmt.Sprintf("callResult%d", i)] = x
					}
				default:
					env.vars["callResult"] = v
				}
			}
		}
		g := u.evalIn(env, cl)
		if cl.assumeAt {
			u.assume(st.guard, g)
			u.noteHavoc("assumed invariant in " + u.name + ": " + cl.text)
			continue
		}
		u.oblige("assert", strings.TrimPrefix(cl.at, "call:")+"-"+labelOr(cl, ats), st, g, token.NoPos, cl.text)
	}
}


// mapIter is the executor-level value of a map range iterator (thin contracts only).
type mapIter struct{}

// rangeIter is the executor-level value of a string range iterator.
type rangeIter struct {
	cell *ghostCell
	str  *Term
}

func (u *Unit) rangeCell(x *ssa.Range) *ghostCell {
	if u.rangeCells == nil {
		u.rangeCells = map[*ssa.Range]*ghostCell{}
	}
	g, ok := u.rangeCells[x]
	if !ok {
		g = &ghostCell{name: "rangepos_" + x.Name(), typ: types.Typ[types.Int]}
		u.rangeCells[x] = g
	}
	return g
}
