package main

// Engine: loads /repo with the verif tag, builds go/ssa, indexes functions and
// contracts, and runs verification units.

import (
	"fmt"
	"go/ast"
	"go/constant"
	"go/token"
	"go/types"
	"os"
	"sort"
	"strings"

	"golang.org/x/tools/go/packages"
	"golang.org/x/tools/go/ssa"
	"golang.org/x/tools/go/ssa/ssautil"
)

type Engine struct {
	repo        string
	fset        *token.FileSet
	pkgs        []*packages.Package
	prog        *ssa.Program
	funcs       map[string]*ssa.Function // "pkg.Name" -> function
	fnames      map[*ssa.Function]string
	contracts   map[string]*Contract // "pkg.Name" -> contract (func/spec/lemma)
	externs     map[string]*Contract // qualified external name -> contract
	checked     map[*Contract]*checkedContract
	clauseOwner map[*Clause]*Contract
	tables      map[*ssa.Global][]int64
	globalInit  map[*ssa.Global]string // concrete dynamic type of interface-typed globals
	storedOutsideInit map[*ssa.Global]bool
	all         []*Contract
	loadErrs    []string
}

func loadEngine(repo string, patterns []string) (*Engine, error) {
	e := &Engine{repo: repo, funcs: map[string]*ssa.Function{}, fnames: map[*ssa.Function]string{},
		contracts: map[string]*Contract{}, externs: map[string]*Contract{}, checked: map[*Contract]*checkedContract{},
		clauseOwner: map[*Clause]*Contract{}, tables: map[*ssa.Global][]int64{}, globalInit: map[*ssa.Global]string{},
		storedOutsideInit: map[*ssa.Global]bool{}}
	cfg := &packages.Config{Mode: packages.LoadAllSyntax, Dir: repo, BuildFlags: []string{"-tags=verif"}, Tests: false}
	pkgs, err := packages.Load(cfg, patterns...)
	if err != nil {
		return nil, err
	}
	nerr := 0
	packages.Visit(pkgs, nil, func(p *packages.Package) {
		for _, er := range p.Errors {
			e.loadErrs = append(e.loadErrs, er.Error())
			nerr++
		}
	})
	if nerr > 0 {
		return nil, fmt.Errorf("package load errors:\n%s", strings.Join(e.loadErrs, "\n"))
	}
	e.pkgs = pkgs
	e.fset = pkgs[0].Fset
	prog, _ := ssautil.AllPackages(pkgs, ssa.NaiveForm|ssa.GlobalDebug|ssa.InstantiateGenerics)
	prog.Build()
	e.prog = prog
	inRepo := map[*types.Package]bool{}
	for _, p := range pkgs {
		inRepo[p.Types] = true
	}
	for fn := range ssautil.AllFunctions(prog) {
		if fn.Pkg == nil && fn.Origin() == nil && fn.Parent() == nil {
			continue
		}
		pkg := fn.Pkg
		if pkg == nil && fn.Origin() != nil {
			pkg = fn.Origin().Pkg
		}
		if pkg == nil && fn.Parent() != nil {
			p := fn
			for p.Parent() != nil {
				p = p.Parent()
			}
			pkg = p.Pkg
			if pkg == nil && p.Origin() != nil {
				pkg = p.Origin().Pkg
			}
		}
		if pkg == nil {
			continue
		}
		if fn.Origin() != nil {
			continue // instantiations are looked up through their origin
		}
		name := pkg.Pkg.Name() + "." + fn.RelString(pkg.Pkg)
		e.fnames[fn] = name
		if inRepo[pkg.Pkg] {
			e.funcs[name] = fn
		}
	}
	// methods that nothing reaches (used only by tests) are still functions of the
	// repository that a contract may bind to
	for _, p := range pkgs {
		scope := p.Types.Scope()
		for _, n := range scope.Names() {
			tn, ok := scope.Lookup(n).(*types.TypeName)
			if !ok {
				continue
			}
			named, ok := tn.Type().(*types.Named)
			if !ok || named.TypeParams().Len() > 0 {
				continue
			}
			for i := 0; i < named.NumMethods(); i++ {
				fn := prog.FuncValue(named.Method(i))
				if fn == nil || fn.Pkg == nil {
					continue
				}
				name := fn.Pkg.Pkg.Name() + "." + fn.RelString(fn.Pkg.Pkg)
				if _, ok := e.funcs[name]; !ok {
					e.fnames[fn] = name
					e.funcs[name] = fn
				}
			}
		}
	}
	// contracts
	for _, p := range pkgs {
		cs, err := parseContracts(p)
		if err != nil {
			return nil, err
		}
		for _, c := range cs {
			e.all = append(e.all, c)
			for _, cl := range c.clauses {
				e.clauseOwner[cl] = c
			}
			if c.kind == "extern" {
				e.externs[c.name] = c
				continue
			}
			key := p.Types.Name() + "." + c.name
			if e.contracts[key] != nil {
				return nil, fmt.Errorf("%s: duplicate contract for %s", c.pos, key)
			}
			e.contracts[key] = c
		}
	}
	for _, c := range e.all {
		ci, err := e.checkContract(c)
		if err != nil {
			return nil, err
		}
		e.checked[c] = ci
	}
	e.scanGlobals()
	return e, nil
}

func (e *Engine) funcName(fn *ssa.Function) string {
	if fn.Origin() != nil {
		fn = fn.Origin()
	}
	if n, ok := e.fnames[fn]; ok {
		return n
	}
	if fn.Pkg != nil {
		return fn.Pkg.Pkg.Name() + "." + fn.RelString(fn.Pkg.Pkg)
	}
	return fn.String()
}

func (e *Engine) ssaFunc(f *types.Func) *ssa.Function {
	return e.prog.FuncValue(f)
}

func (e *Engine) globalFor(v *types.Var) *ssa.Global {
	if v.Pkg() == nil {
		return nil
	}
	p := e.prog.Package(v.Pkg())
	if p == nil {
		return nil
	}
	return p.Var(v.Name())
}

func (e *Engine) verifFilePos(con *Contract) token.Pos {
	for i, f := range con.pkg.Syntax {
		if con.pkg.CompiledGoFiles[i] == con.pos.Filename {
			// after the imports: end of the last import decl, or package clause
			pos := f.Name.End()
			for _, d := range f.Decls {
				if gd, ok := d.(*ast.GenDecl); ok && gd.Tok == token.IMPORT {
					pos = gd.End()
				}
			}
			return pos + 1
		}
	}
	return token.NoPos
}

// scanGlobals reads lookup tables from their initialisers and records which
// globals are stored to outside package initialisation.
func (e *Engine) scanGlobals() {
	for _, p := range e.pkgs {
		sp := e.prog.Package(p.Types)
		for _, f := range p.Syntax {
			for _, d := range f.Decls {
				gd, ok := d.(*ast.GenDecl)
				if !ok || gd.Tok != token.VAR {
					continue
				}
				for _, s := range gd.Specs {
					vs := s.(*ast.ValueSpec)
					for i, n := range vs.Names {
						if i >= len(vs.Values) {
							continue
						}
						cl, ok := vs.Values[i].(*ast.CompositeLit)
						if !ok {
							continue
						}
						at, ok := p.TypesInfo.TypeOf(cl).Underlying().(*types.Array)
						if !ok {
							continue
						}
						if _, isInt := intTypeInfo(at.Elem()); !isInt {
							continue
						}
						tab := make([]int64, at.Len())
						idx := int64(0)
						good := true
						for _, el := range cl.Elts {
							val := el
							if kv, ok := el.(*ast.KeyValueExpr); ok {
								ktv := p.TypesInfo.Types[kv.Key]
								if ktv.Value == nil {
									good = false
									break
								}
								k, _ := constant.Int64Val(constant.ToInt(ktv.Value))
								idx = k
								val = kv.Value
							}
							vtv := p.TypesInfo.Types[val]
							if vtv.Value == nil {
								good = false
								break
							}
							v, _ := constant.Int64Val(constant.ToInt(vtv.Value))
							tab[idx] = v
							idx++
						}
						if good {
							if g := sp.Var(n.Name); g != nil {
								e.tables[g] = tab
							}
						}
					}
				}
			}
		}
	}
	// stores to globals outside init
	for fn := range ssautil.AllFunctions(e.prog) {
		if fn.Name() == "init" || strings.HasPrefix(fn.Name(), "init#") {
			for _, b := range fn.Blocks {
				for _, ins := range b.Instrs {
					st, ok := ins.(*ssa.Store)
					if !ok {
						continue
					}
					g, ok := st.Addr.(*ssa.Global)
					if !ok {
						continue
					}
					switch v := st.Val.(type) {
					case *ssa.Call:
						if cal := v.Call.StaticCallee(); cal != nil && cal.Pkg != nil && cal.Pkg.Pkg.Path() == "errors" && cal.Name() == "New" {
							e.globalInit[g] = "*errors.errorString"
						}
					case *ssa.MakeInterface:
						e.globalInit[g] = types.TypeString(v.X.Type(), nil)
					}
				}
			}
			continue
		}
		for _, b := range fn.Blocks {
			for _, ins := range b.Instrs {
				st, ok := ins.(*ssa.Store)
				if !ok {
					continue
				}
				a := st.Addr
				for {
					switch x := a.(type) {
					case *ssa.IndexAddr:
						a = x.X
						continue
					case *ssa.FieldAddr:
						a = x.X
						continue
					}
					break
				}
				if g, ok := a.(*ssa.Global); ok {
					e.storedOutsideInit[g] = true
				}
			}
		}
	}
}

// ------------------------------------------------------------ units

type Unit struct {
	eng           *Engine
	name          string
	fn            *ssa.Function
	con           *Contract
	ci            *checkedContract
	m             *Model
	assumptions   []*Term
	obligs        []*Oblig
	counter       map[string]int
	labelSeen     map[string]int
	heapSorts     map[string]Sort
	epochs        int
	ghosts        map[*ghostCell]bool
	loopCtxs      map[*loopInfo]*loopCtx
	havocs        map[string]int
	calleesUsed   map[string]string
	globalsUsed   map[*ssa.Global]bool
	tableDone     map[*ssa.Global]bool
	sentinels     map[*ssa.Global]bool
	allocCache    map[allocKey]*ssa.Alloc
	checkOverflow bool
	quiet         bool // suppress obligations and assumptions (spec bodies, pure inlining in contracts)
	specs         map[string]*specDef
	specOrder     []string
	entry         *State
	typedArrs     map[int]bool
	frameSpec     *frameSpec
	assumed       map[int]bool
	assumeTags    []string
	curTag        string   // tag given to assumptions being added (loop invariant labels)
	curWithout    []string // exclusions for obligations being generated
	paramVals     map[string]Val
	rangeCells    map[*ssa.Range]*ghostCell
	heapBorn      map[int]*Term
	err           error
}

func (e *Engine) newUnit(con *Contract) *Unit {
	mode := ModeInt
	if con.theory == "bv" {
		mode = ModeBV
	}
	ci := e.checked[con]
	u := &Unit{eng: e, con: con, ci: ci, fn: ci.fn, m: newModel(mode), counter: map[string]int{}, labelSeen: map[string]int{},
		heapSorts: map[string]Sort{}, ghosts: map[*ghostCell]bool{}, loopCtxs: map[*loopInfo]*loopCtx{}, havocs: map[string]int{},
		calleesUsed: map[string]string{}, globalsUsed: map[*ssa.Global]bool{}, tableDone: map[*ssa.Global]bool{}, sentinels: map[*ssa.Global]bool{},
		allocCache: map[allocKey]*ssa.Alloc{}, specs: map[string]*specDef{}, paramVals: map[string]Val{}, typedArrs: map[int]bool{}, assumed: map[int]bool{}}
	u.name = con.pkg.Types.Name() + "." + con.name
	u.checkOverflow = mode == ModeInt
	return u
}

// run generates all obligations of the unit.
func (u *Unit) run() (err error) {
	defer func() {
		if r := recover(); r != nil {
			if ee, ok := r.(engineErr); ok {
				err = ee
				return
			}
			if os.Getenv("GOVC_PANIC") != "" {
				panic(r)
			}
			err = fmt.Errorf("%s: internal error: %v", u.name, r)
		}
	}()
	m := u.m
	tb := m.tb
	fr := u.newFrame(u.fn, u.con, 0)
	fr.top = true
	st := &State{guard: tb.True(), cells: map[any]Val{}, heap: map[string]*Term{}}
	// parameters
	for _, p := range u.fn.Params {
		v := u.freshVal(st, p.Type(), "p_"+p.Name())
		if t, ok := v.(*Term); ok {
			u.assumeTyping(tb.True(), t, p.Type(), st) // references held by parameters exist at entry
		}
		fr.vals[p] = v
		u.paramVals[p.Name()] = v
		fr.paramVals[p.Name()] = v
	}
	for i, fv := range u.fn.FreeVars {
		// closures under contract: captured variables are unconstrained cells
		g := &ghostCell{name: "fv_" + fv.Name(), typ: fv.Type().Underlying().(*types.Pointer).Elem()}
		u.ghosts[g] = true
		st.cells[g] = u.freshValOrTerm(st, g.typ, "fv_"+fv.Name())
		fr.binds = append(fr.binds, &Ptr{kind: pCell, cell: g, base: g.typ, typ: g.typ})
		_ = i
	}
	// the nil reference is not an allocated object
	u.assume(tb.True(), tb.Not(u.isAlloc0(tb.Int(0))))
	u.entry = st.clone()
	// preconditions
	penv := u.paramEnv(st, nil)
	for _, cl := range u.con.get("requires") {
		u.assume(tb.True(), u.evalIn(penv, cl))
	}
	u.entry = st.clone()
	rets := u.execBody(fr, st)
	rst, vals, ok := u.mergeRets(rets)
	if !ok {
		return nil
	}
	// postconditions
	ens := u.con.get("ensures")
	post := func(rst *State, vals []Val, suffix string) {
		// `at return assert` stepping stones (locals visible, results named)
		var rets []*Clause
		for _, cl := range u.con.clauses {
			if cl.kind == "at" && cl.at == "return" {
				rets = append(rets, cl)
			}
		}
		for _, cl := range rets {
			fenv := u.frameEnv(fr, rst, nil)
			for i, r := range u.ci.results {
				fenv.vars[r] = vals[i]
			}
			if len(vals) == 1 {
				fenv.vars["result"] = vals[0]
			}
			g := u.evalIn(fenv, cl)
			u.curWithout = cl.without
			u.oblige("assert", "return-"+labelOr(cl, rets)+suffix, rst, g, token.NoPos, cl.text)
			u.curWithout = nil
		}
		env := u.paramEnv(rst, u.entry)
		for i, r := range u.ci.results {
			env.vars[r] = vals[i]
		}
		if len(vals) == 1 {
			env.vars["result"] = vals[0]
		}
		for _, cl := range ens {
			g := u.evalIn(env, cl)
			u.curWithout = cl.without
			u.oblige("post", labelOr(cl, ens)+suffix, rst, g, token.NoPos, cl.text)
			u.curWithout = nil
		}
	}
	if u.con.split && len(rets) > 1 {
		for i, r := range rets {
			post(r.st, r.vals, fmt.Sprintf("@ret%d", i))
		}
	} else {
		post(rst, vals, "")
	}
	u.frameObligations(rst)
	u.probe("return", rst)
	return nil
}

func (u *Unit) freshValOrTerm(st *State, t types.Type, hint string) Val {
	return u.freshVal(st, t, hint)
}

// paramEnv: parameter names denote entry values.
func (u *Unit) paramEnv(st *State, old *State) *Env {
	env := &Env{u: u, st: st, vars: map[string]Val{}}
	for k, v := range u.paramVals {
		env.vars[k] = v
	}
	if old != nil {
		env.old = &Env{u: u, st: old, vars: env.vars, isOld: true}
	}
	return env
}

// Frame conditions: heap locations not named by `modifies` are unchanged.
// The same condition is checked at the end of the function and kept as an
// engine-generated invariant at every loop whose body writes the heap.
type frameSpec struct {
	allowed      map[string][]*Term // field heap key -> object refs whose entry may change
	elemsAllowed map[string][]*Term // element heap key -> slices whose elements may change
	everything   bool
	active       bool
}

func (u *Unit) frame() *frameSpec {
	if u.frameSpec != nil {
		return u.frameSpec
	}
	fs := &frameSpec{allowed: map[string][]*Term{}, elemsAllowed: map[string][]*Term{}}
	u.frameSpec = fs
	mods := u.con.get("modifies")
	if len(mods) == 0 && !u.con.hasFrame() {
		return fs
	}
	fs.active = true
	env := u.paramEnv(u.entry, nil)
	env.info = u.ci.info
	var addStruct func(ref *Term, t types.Type)
	addStruct = func(ref *Term, t types.Type) {
		dt := u.m.structInfo(t)
		for i, f := range dt.fields {
			if isStructType(f.typ) {
				addStruct(u.subRef(dt, i, ref), f.typ)
			} else {
				fs.allowed[dt.heapKey(i)] = append(fs.allowed[dt.heapKey(i)], ref)
			}
		}
	}
	for _, cl := range mods {
		for _, e := range u.ci.modifies[cl] {
			e = ast.Unparen(e)
			if id, ok := e.(*ast.Ident); ok && id.Name == "everything" {
				fs.everything = true
				continue
			}
			switch x := e.(type) {
			case *ast.StarExpr:
				p := env.eval(x.X)
				pt := env.typeOf(x.X).Underlying().(*types.Pointer).Elem()
				if ref, ok := p.(*Term); ok && isStructType(pt) {
					addStruct(ref, pt)
				}
			case *ast.SelectorExpr:
				bt := env.typeOf(x.X)
				if pt, ok := bt.Underlying().(*types.Pointer); ok {
					bt = pt.Elem()
				}
				if ref, ok := env.evalLoc(x.X); ok {
					dt := u.m.structInfo(bt)
					fi := fieldIndex(bt, x.Sel.Name)
					if isStructType(dt.fields[fi].typ) {
						addStruct(u.subRef(dt, fi, ref), dt.fields[fi].typ)
					} else {
						fs.allowed[dt.heapKey(fi)] = append(fs.allowed[dt.heapKey(fi)], ref)
					}
				}
			case *ast.SliceExpr:
				s := env.eval(x.X).(*Term)
				et := env.typeOf(x.X).Underlying().(*types.Slice).Elem()
				k, _ := u.elemsKey(et)
				fs.elemsAllowed[k] = append(fs.elemsAllowed[k], s)
			}
		}
	}
	return fs
}

// frameGoal: the frame condition of heap key k between function entry and st
// (nil when nothing was written or the key is exempt).
func (u *Unit) frameGoal(st *State, k string) *Term {
	fs := u.frame()
	if !fs.active || fs.everything || k == allocHeapKey {
		return nil
	}
	tb := u.m.tb
	srt, ok := u.heapSorts[k]
	if !ok {
		return nil
	}
	final := u.heapGet(st, k, srt)
	entry := u.heapGet(u.entry, k, srt)
	if final == entry {
		return nil
	}
	// objects allocated by this function (outside the entry allocation set) are not
	// caller-visible; listed locations may change; every other entry object is unchanged
	exp := entry
	var extra []*Term
	if strings.HasPrefix(k, "E_") {
		for _, s := range fs.elemsAllowed[k] {
			ref := u.m.SliceRef(s)
			exp = tb.Store(exp, ref, tb.Select(final, ref))
			j := tb.BoundVar("j", u.m.ixSort())
			in := tb.And(u.m.IxLe(u.m.SliceOff(s), j), u.m.IxLt(j, u.m.IxAdd(u.m.SliceOff(s), u.m.SliceCap(s))))
			extra = append(extra, tb.Forall([]*Term{j}, tb.Implies(tb.Not(in), tb.Eq(tb.Select(tb.Select(final, ref), j), tb.Select(tb.Select(entry, ref), j)))))
		}
	} else {
		for _, ref := range fs.allowed[k] {
			exp = tb.Store(exp, ref, tb.Select(final, ref))
		}
	}
	r := tb.BoundVar("r", SInt)
	main := tb.Forall([]*Term{r}, tb.Implies(u.isAlloc0(r), tb.Eq(tb.Select(final, r), tb.Select(exp, r))))
	return tb.And(append([]*Term{main}, extra...)...)
}

func (u *Unit) frameObligations(st *State) {
	if !u.frame().active || u.frame().everything {
		return
	}
	if u.con.frameAssumed != "" {
		// the frame of this function is an assumption (listed in the evidence); its
		// other obligations are verified
		u.noteHavoc("assumed frame of " + u.name + ": " + u.con.frameAssumed)
		return
	}
	var keys []string
	for k := range u.heapSorts {
		keys = append(keys, k)
	}
	sort.Strings(keys)
	for _, k := range keys {
		if g := u.frameGoal(st, k); g != nil {
			u.curWithout = u.con.frameWithout
			u.oblige("frame", k, st, g, token.NoPos, "locations outside `modifies` are unchanged ("+k+")")
			u.curWithout = nil
		}
	}
}

func (c *Contract) hasFrame() bool {
	return c.kind == "func" && !c.inline
}

func dieIf(err error) {
	if err != nil {
		fmt.Fprintln(os.Stderr, "govc:", err)
		os.Exit(2)
	}
}
