package main

// Re-indexing of quantified facts.
//
// A callee's contract about a sub-slice b = buf[pos:] speaks about b[i], which in
// the caller's heap is buf[pos+i]: the assumed fact is
//     forall i. lo <= i < hi  =>  P(arr[ix(off, pos+i)])
// E-matching cannot instantiate it for a goal that mentions arr[ix(off, k)]
// (it would have to solve pos+i = k). For every such shifted index the
// logically equivalent fact with the bound variable substituted by j-pos is
// added as well:
//     forall j. lo <= j-pos < hi  =>  P(arr[ix(off, j)])
// This only adds consequences of facts already assumed (sound).

func (u *Unit) reindexFacts(fact *Term) []*Term {
	if u.m.mode != ModeInt {
		return nil
	}
	var out []*Term
	var visit func(t *Term, wrap func(*Term) *Term, depth int)
	visit = func(t *Term, wrap func(*Term) *Term, depth int) {
		if depth > 4 {
			return
		}
		switch {
		case t.op == "forall" && len(t.vars) == 1:
			for _, r := range u.reindexForall(t) {
				out = append(out, wrap(r))
			}
		case t.op == "and" && t.vars == nil:
			for _, a := range t.args {
				visit(a, wrap, depth+1)
			}
		case t.op == "=>" && len(t.args) == 2 && !t.args[0].bound:
			g := t.args[0]
			visit(t.args[1], func(x *Term) *Term { return wrap(u.m.tb.Implies(g, x)) }, depth+1)
		}
	}
	visit(fact, func(x *Term) *Term { return x }, 0)
	return out
}

func (u *Unit) reindexForall(q *Term) []*Term {
	tb := u.m.tb
	i := q.vars[0]
	if i.sort != SInt {
		return nil
	}
	// shifted index terms  ix(o, c+i)  with c free of bound variables
	shifts := map[int]*Term{}   // c.id -> c
	shiftTerm := map[int]*Term{} // c.id -> the term c+i as it occurs
	var order []int
	seen := map[int]bool{}
	var scan func(t *Term)
	scan = func(t *Term) {
		if !t.bound || seen[t.id] {
			return
		}
		seen[t.id] = true
		if t.op == "ix" && len(t.args) == 2 {
			k := t.args[1]
			if k.op == "+" && len(k.args) == 2 {
				var c *Term
				if k.args[0] == i && !k.args[1].bound {
					c = k.args[1]
				} else if k.args[1] == i && !k.args[0].bound {
					c = k.args[0]
				}
				if c != nil {
					if _, ok := shifts[c.id]; !ok {
						shifts[c.id] = c
						shiftTerm[c.id] = k
						order = append(order, c.id)
					}
				}
			}
		}
		for _, a := range t.args {
			scan(a)
		}
	}
	scan(q.args[0])
	if len(order) == 0 || len(order) > 2 {
		return nil
	}
	var out []*Term
	for _, id := range order {
		c := shifts[id]
		j := tb.BoundVar("s", SInt)
		jc := tb.mk("-", SInt, j, c)
		memo := map[int]*Term{}
		var sub func(t *Term) *Term
		sub = func(t *Term) *Term {
			if !t.bound {
				return t
			}
			if r, ok := memo[t.id]; ok {
				return r
			}
			var r *Term
			switch {
			case t == i:
				r = jc
			case t == shiftTerm[id]:
				r = j
			case t.vars != nil:
				r = tb.quant(t.op, t.vars, sub(t.args[0]))
			default:
				args := make([]*Term, len(t.args))
				ch := false
				for k, a := range t.args {
					args[k] = sub(a)
					ch = ch || args[k] != a
				}
				if ch {
					r = tb.mk(t.op, t.sort, args...)
				} else {
					r = t
				}
			}
			memo[t.id] = r
			return r
		}
		out = append(out, tb.Forall([]*Term{j}, sub(q.args[0])))
	}
	return out
}
