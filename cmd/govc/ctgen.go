package main

// Executable contracts: generates an in-package Go test that calls the real
// function on generated (or replayed) inputs and evaluates the very same
// requires/ensures text. Used to replay solver counterexamples, to search for a
// failing input when the solver gives none, to validate contracts against the
// code (thorough tier), and for bounded stand-ins.

import (
	"bytes"
	_ "embed"
	"encoding/json"
	"fmt"
	"go/ast"
	"go/format"
	"go/token"
	"go/types"
	"os"
	"os/exec"
	"path/filepath"
	"regexp"
	"strings"
)

//go:embed rt_test.go.tmpl
var rtTemplate string

type execResult struct {
	Ran       bool   `json:"ran"`
	Supported bool   `json:"supported"`
	Why       string `json:"why,omitempty"`
	Executed  int    `json:"executed"`
	Skipped   int    `json:"skipped"`
	Violation string `json:"violation,omitempty"` // label of the violated clause
	Clause    string `json:"clause,omitempty"`
	Inputs    string `json:"inputs,omitempty"`
	Output    string `json:"output,omitempty"`
	TestSrc   string `json:"-"`
	Cmd       string `json:"cmd,omitempty"`
	Clauses   int    `json:"clauses_checked"`
	Seed      int64  `json:"seed,omitempty"`
	Budget    int    `json:"budget,omitempty"`
}

var mathOnlyRE = regexp.MustCompile(`\b(bigc|mathWrap64|mathVal|pow10)\(`)

func isMathOnly(text string) bool { return mathOnlyRE.MatchString(text) }

// genContractTest renders the test source for a contract.
func (e *Engine) genContractTest(con *Contract) (src string, testName string, nclauses int, why string) {
	ci := e.checked[con]
	if ci == nil || ci.fn == nil {
		return "", "", 0, "no function"
	}
	fn := ci.fn
	if con.noexec != "" {
		return "", "", 0, "marked noexec: " + con.noexec
	}
	if fn.Parent() != nil {
		return "", "", 0, "closures cannot be called directly"
	}
	if fn.TypeParams().Len() > 0 {
		return "", "", 0, "generic function"
	}
	pkg := con.pkg.Types
	sig := fn.Signature
	// parameter types must be generable
	for _, pt := range ci.ptypes {
		if !generable(pt, 0) && !(con.mode == "bounded" && generableLoose(pt, 0)) {
			return "", "", 0, "parameter type " + pt.String() + " is not generable"
		}
	}
	testName = "TestGovcContract_" + sanitizeIdent(con.name)
	var sb strings.Builder
	sb.WriteString("//go:build verif\n\npackage " + pkg.Name() + "\n\nimport \"testing\"\n")
	imps := map[string]string{}
	for id, obj := range ci.info.Uses {
		if pn, ok := obj.(*types.PkgName); ok {
			imps[id.Name] = pn.Imported().Path()
		}
	}
	sb.WriteString("//IMPORTS\n\n")
	fmt.Fprintf(&sb, "func %s(t *testing.T) {\n\tg := govcNewGen(t)\n", testName)
	if con.mode == "bounded" {
		sb.WriteString("\tg.Bounded()\n")
	}
	sb.WriteString("\tfor g.Next() {\n")
	rename := map[string]string{}
	for i, p := range ci.params {
		if p == "_" || p == "" {
			p = fmt.Sprintf("arg%d", i)
			ci.params[i] = p
		}
		fmt.Fprintf(&sb, "\t\tvar %s %s\n\t\tg.Fill(&%s, %q)\n", p, typeText(ci.ptypes[i], pkg), p, p)
		fmt.Fprintf(&sb, "\t\told_%s := govcDeepCopy(%s)\n\t\t_ = old_%s\n", p, p, p)
		rename[p] = "old_" + p
	}
	for _, st := range con.prepare {
		sb.WriteString("\t\t" + st + "\n")
	}
	for _, p := range ci.params {
		fmt.Fprintf(&sb, "\t\told_%s = govcDeepCopy(%s)\n\t\tg.Record(%q, old_%s)\n", p, p, p, p)
	}
	// requires
	for _, cl := range con.get("requires") {
		if isMathOnly(cl.text) {
			continue
		}
		ex, err := renderExpr(e.fset, ci.exprs[cl], rename, false)
		if err != nil {
			return "", "", 0, err.Error()
		}
		fmt.Fprintf(&sb, "\t\tif !(%s) {\n\t\t\tg.Skip()\n\t\t\tcontinue\n\t\t}\n", ex)
	}
	// the call, guarded against panics
	var lhs []string
	for i, r := range ci.results {
		_ = i
		lhs = append(lhs, r)
	}
	var call string
	args := ci.params
	if sig.Recv() != nil {
		call = fmt.Sprintf("%s.%s(%s)", args[0], fn.Name(), strings.Join(args[1:], ", "))
	} else {
		call = fmt.Sprintf("%s(%s)", fn.Name(), strings.Join(args, ", "))
	}
	for i, r := range ci.results {
		fmt.Fprintf(&sb, "\t\tvar %s %s\n", r, typeText(ci.rtypes[i], pkg))
	}
	sb.WriteString("\t\tfunc() {\n\t\t\tdefer func() {\n\t\t\t\tif r := recover(); r != nil {\n\t\t\t\t\tg.Panicked(r)\n\t\t\t\t}\n\t\t\t}()\n")
	if len(lhs) > 0 {
		fmt.Fprintf(&sb, "\t\t\t%s = %s\n", strings.Join(lhs, ", "), call)
	} else {
		fmt.Fprintf(&sb, "\t\t\t%s\n", call)
	}
	sb.WriteString("\t\t}()\n\t\tg.Ran()\n")
	if len(ci.results) == 1 {
		fmt.Fprintf(&sb, "\t\tresult := %s\n\t\t_ = result\n", ci.results[0])
	}
	for _, r := range ci.results {
		fmt.Fprintf(&sb, "\t\t_ = %s\n", r)
	}
	ens := con.get("ensures")
	for _, cl := range ens {
		if isMathOnly(cl.text) {
			continue
		}
		ex, err := renderExpr(e.fset, ci.exprs[cl], rename, true)
		if err != nil {
			return "", "", 0, err.Error()
		}
		nclauses++
		fmt.Fprintf(&sb, "\t\tif !g.Eval(%q, func() bool { return %s }) {\n\t\t\tg.Fail(%q, %q)\n\t\t}\n", labelOr(cl, ens), ex, labelOr(cl, ens), cl.text)
	}
	sb.WriteString("\t}\n\tg.Done()\n}\n")
	body := sb.String()
	var imp strings.Builder
	for name, path := range imps {
		if regexp.MustCompile(`\b` + regexp.QuoteMeta(name) + `\.`).MatchString(strings.SplitN(body, "//IMPORTS", 2)[1]) {
			fmt.Fprintf(&imp, "import %s %q\n", name, path)
		}
	}
	body = strings.Replace(body, "//IMPORTS\n", imp.String(), 1)
	out, err := format.Source([]byte(body))
	if err != nil {
		return sb.String(), testName, nclauses, "generated test does not parse: " + err.Error()
	}
	if nclauses == 0 {
		return string(out), testName, 0, "no executable ensures clause"
	}
	return string(out), testName, nclauses, ""
}

func sanitizeIdent(s string) string {
	var sb strings.Builder
	for _, r := range s {
		if r >= 'a' && r <= 'z' || r >= 'A' && r <= 'Z' || r >= '0' && r <= '9' {
			sb.WriteRune(r)
		} else {
			sb.WriteByte('_')
		}
	}
	return sb.String()
}

// generableLoose: as generable, but map-typed fields are accepted (left nil by the
// generator); only for bounded stand-ins, whose `prepare` statements build the value.
func generableLoose(t types.Type, depth int) bool {
	if depth > 4 {
		return false
	}
	switch u := t.Underlying().(type) {
	case *types.Map:
		return true
	case *types.Slice:
		return generableLoose(u.Elem(), depth+1)
	case *types.Array:
		return generableLoose(u.Elem(), depth+1)
	case *types.Pointer:
		return generableLoose(u.Elem(), depth+1)
	case *types.Struct:
		for i := 0; i < u.NumFields(); i++ {
			if !generableLoose(u.Field(i).Type(), depth+1) {
				return false
			}
		}
		return true
	}
	return generable(t, depth)
}

func generable(t types.Type, depth int) bool {
	if depth > 4 {
		return false
	}
	switch u := t.Underlying().(type) {
	case *types.Basic:
		return u.Info()&(types.IsInteger|types.IsBoolean|types.IsString|types.IsFloat) != 0
	case *types.Slice:
		return generable(u.Elem(), depth+1)
	case *types.Array:
		return generable(u.Elem(), depth+1)
	case *types.Pointer:
		return generable(u.Elem(), depth+1)
	case *types.Struct:
		for i := 0; i < u.NumFields(); i++ {
			if !generable(u.Field(i).Type(), depth+1) {
				return false
			}
		}
		return true
	}
	return false
}

// renderExpr prints a checked contract expression as Go source; inside old(…)
// parameter names are replaced by their pre-state copies. In postconditions
// parameters denote their entry values as well.
func renderExpr(fset *token.FileSet, e ast.Expr, rename map[string]string, post bool) (string, error) {
	var rec func(n ast.Node, inOld bool) ast.Node
	cp := func(x ast.Expr, inOld bool) ast.Expr {
		if x == nil {
			return nil
		}
		return rec(x, inOld).(ast.Expr)
	}
	rec = func(n ast.Node, inOld bool) ast.Node {
		switch x := n.(type) {
		case *ast.Ident:
			if inOld {
				if r, ok := rename[x.Name]; ok {
					return ast.NewIdent(r)
				}
			}
			return ast.NewIdent(x.Name)
		case *ast.CallExpr:
			if id, ok := x.Fun.(*ast.Ident); ok && id.Name == "old" && len(x.Args) == 1 {
				return &ast.ParenExpr{X: cp(x.Args[0], true)}
			}
			if id, ok := x.Fun.(*ast.Ident); ok && id.Name == "implies" && len(x.Args) == 2 {
				// short-circuit so that a guarded partial expression is not evaluated
				return &ast.ParenExpr{X: &ast.BinaryExpr{X: &ast.UnaryExpr{Op: token.NOT, X: &ast.ParenExpr{X: cp(x.Args[0], inOld)}}, Op: token.LOR, Y: &ast.ParenExpr{X: cp(x.Args[1], inOld)}}}
			}
			c := &ast.CallExpr{Fun: cp(x.Fun, inOld), Ellipsis: x.Ellipsis}
			for _, a := range x.Args {
				c.Args = append(c.Args, cp(a, inOld))
			}
			return c
		case *ast.BinaryExpr:
			return &ast.BinaryExpr{X: cp(x.X, inOld), Op: x.Op, Y: cp(x.Y, inOld)}
		case *ast.UnaryExpr:
			return &ast.UnaryExpr{Op: x.Op, X: cp(x.X, inOld)}
		case *ast.ParenExpr:
			return &ast.ParenExpr{X: cp(x.X, inOld)}
		case *ast.StarExpr:
			return &ast.StarExpr{X: cp(x.X, inOld)}
		case *ast.SelectorExpr:
			return &ast.SelectorExpr{X: cp(x.X, inOld), Sel: ast.NewIdent(x.Sel.Name)}
		case *ast.IndexExpr:
			return &ast.IndexExpr{X: cp(x.X, inOld), Index: cp(x.Index, inOld)}
		case *ast.SliceExpr:
			return &ast.SliceExpr{X: cp(x.X, inOld), Low: cp(x.Low, inOld), High: cp(x.High, inOld), Max: cp(x.Max, inOld), Slice3: x.Slice3}
		case *ast.BasicLit:
			return &ast.BasicLit{Kind: x.Kind, Value: x.Value}
		case *ast.CompositeLit:
			c := &ast.CompositeLit{Type: x.Type}
			for _, el := range x.Elts {
				c.Elts = append(c.Elts, cp(el, inOld))
			}
			return c
		case *ast.KeyValueExpr:
			return &ast.KeyValueExpr{Key: x.Key, Value: cp(x.Value, inOld)}
		case *ast.FuncLit:
			// quantifier bodies: single return statement
			body := &ast.BlockStmt{}
			for _, st := range x.Body.List {
				if rs, ok := st.(*ast.ReturnStmt); ok {
					nr := &ast.ReturnStmt{}
					for _, r := range rs.Results {
						nr.Results = append(nr.Results, cp(r, inOld))
					}
					body.List = append(body.List, nr)
				} else {
					body.List = append(body.List, st)
				}
			}
			return &ast.FuncLit{Type: x.Type, Body: body}
		case *ast.ArrayType, *ast.MapType, *ast.StructType, *ast.FuncType, *ast.InterfaceType:
			return x
		}
		return n
	}
	var buf bytes.Buffer
	if err := format.Node(&buf, token.NewFileSet(), rec(e, false)); err != nil {
		return "", err
	}
	return buf.String(), nil
}

// runContractTests executes the generated tests of several contracts, one
// `go test` invocation per package, against /repo's working tree.
func (e *Engine) runContractTests(cons []*Contract, seed int64, budget int, workdir string) map[*Contract]*execResult {
	out := map[*Contract]*execResult{}
	byPkg := map[string][]*Contract{}
	var pkgOrder []string
	for _, con := range cons {
		dir := filepath.Dir(con.pos.Filename)
		if _, ok := byPkg[dir]; !ok {
			pkgOrder = append(pkgOrder, dir)
		}
		byPkg[dir] = append(byPkg[dir], con)
	}
	for pi, pkgDir := range pkgOrder {
		var bodies []string
		imports := map[string]bool{}
		names := map[string]*Contract{}
		var pkgName string
		for _, con := range byPkg[pkgDir] {
			src, name, ncl, why := e.genContractTest(con)
			res := &execResult{Clauses: ncl}
			out[con] = res
			if why != "" {
				res.Why = why
				continue
			}
			res.Supported = true
			res.TestSrc = src
			pkgName = con.pkg.Types.Name()
			// split the single-test file into imports and body
			lines := strings.Split(src, "\n")
			var body []string
			inBody := false
			for _, l := range lines {
				if strings.HasPrefix(l, "func ") {
					inBody = true
				}
				if inBody {
					body = append(body, l)
				} else if strings.HasPrefix(l, "import ") {
					imports[l] = true
				}
			}
			bodies = append(bodies, strings.Join(body, "\n"))
			names[name] = con
		}
		if len(bodies) == 0 {
			continue
		}
		var sb strings.Builder
		sb.WriteString("//go:build verif\n\npackage " + pkgName + "\n\n")
		for l := range imports {
			sb.WriteString(l + "\n")
		}
		sb.WriteString("\n" + strings.Join(bodies, "\n\n"))
		wd := filepath.Join(workdir, fmt.Sprintf("p%d", pi))
		os.MkdirAll(wd, 0o755)
		tfile := filepath.Join(wd, "contract_test.go")
		rfile := filepath.Join(wd, "rt_test.go")
		os.WriteFile(tfile, []byte(sb.String()), 0o644)
		os.WriteFile(rfile, []byte(strings.ReplaceAll(rtTemplate, "PKGNAME", pkgName)), 0o644)
		ov := map[string]any{"Replace": map[string]string{
			filepath.Join(pkgDir, "zz_govc_contract_test.go"): tfile,
			filepath.Join(pkgDir, "zz_govc_rt_test.go"):       rfile,
		}}
		ob, _ := json.Marshal(ov)
		ovfile := filepath.Join(wd, "overlay.json")
		os.WriteFile(ovfile, ob, 0o644)
		env := append(os.Environ(), fmt.Sprintf("GOVC_SEED=%d", seed), fmt.Sprintf("GOVC_BUDGET=%d", budget))
		rel, _ := filepath.Rel(e.repo, pkgDir)
		args := []string{"test", "-tags", "verif", "-overlay", ovfile, "-vet=off", "-count=1", "-v", "-timeout", "150s", "-run", "^TestGovcContract_", "./" + rel}
		cmd := exec.Command("go", args...)
		cmd.Dir = e.repo
		cmd.Env = env
		outb, _ := cmd.CombinedOutput()
		txt := string(outb)
		cmdline := "go " + strings.Join(args, " ")
		seen := map[string]bool{}
		for _, l := range strings.Split(txt, "\n") {
			var tn string
			switch {
			case strings.HasPrefix(l, "GOVC-EXEC test="):
				var it int
				rest := strings.TrimPrefix(l, "GOVC-EXEC test=")
				tn, rest, _ = strings.Cut(rest, " ")
				if con := names[tn]; con != nil {
					r := out[con]
					fmt.Sscanf(rest, "iterations=%d executed=%d skipped_by_requires=%d", &it, &r.Executed, &r.Skipped)
					r.Ran, r.Cmd = true, cmdline
					seen[tn] = true
				}
			case strings.HasPrefix(l, "GOVC-VIOLATION test="):
				rest := strings.TrimPrefix(l, "GOVC-VIOLATION test=")
				tn, rest, _ = strings.Cut(rest, " ")
				if con := names[tn]; con != nil && out[con].Violation == "" {
					r := out[con]
					rest = strings.TrimPrefix(rest, "label=")
					lbl, after, _ := strings.Cut(rest, " clause=")
					r.Violation = lbl
					if i := strings.LastIndex(after, " inputs="); i >= 0 {
						r.Clause = after[:i]
						r.Inputs = after[i+len(" inputs="):]
					}
					r.Ran, r.Cmd = true, cmdline
				}
			case strings.HasPrefix(l, "GOVC-CONTRACT-PANIC test="):
				rest := strings.TrimPrefix(l, "GOVC-CONTRACT-PANIC test=")
				tn, rest, _ = strings.Cut(rest, " ")
				if con := names[tn]; con != nil {
					out[con].Why = "contract clause panicked while evaluated: " + rest
					out[con].Supported = false
				}
			}
		}
		for tn, con := range names {
			if !seen[tn] && out[con].Violation == "" && out[con].Supported {
				out[con].Supported = false
				out[con].Why = "generated test did not run: " + tail(txt, 500)
			}
		}
	}
	return out
}

func (e *Engine) runContractTest(con *Contract, seed int64, budget int, inputs []map[string]any, workdir string) execResult {
	r := e.runContractTests([]*Contract{con}, seed, budget, workdir)[con]
	return *r
}

func tail(s string, n int) string {
	if len(s) > n {
		return "…" + s[len(s)-n:]
	}
	return s
}

func firstExported(info *types.Info, pkgName string) string {
	for id, obj := range info.Uses {
		if obj.Pkg() != nil && obj.Pkg().Name() == pkgName && obj.Exported() {
			if _, isPkg := obj.(*types.PkgName); !isPkg && obj.Parent() == obj.Pkg().Scope() {
				_ = id
				return obj.Name()
			}
		}
	}
	return "_"
}
