package main

// `govc check`: the per-property check used by MANIFEST.json. It verifies every
// contract tagged with the property against /repo's current working tree,
// guards against vacuity (ledger, probes, canaries), reports violations with a
// replay file, honours the known-findings file and writes the evidence file.

import (
	"bufio"
	"regexp"
	"encoding/json"
	"fmt"
	"os"
	"path/filepath"
	"sort"
	"strconv"
	"strings"
	"time"
)

type knownFinding struct {
	Property   string `json:"property"`
	Obligation string `json:"obligation"` // exact obligation name
	What       string `json:"what"`
	Status     string `json:"status"` // "known" or "fixed"
	Commit     string `json:"commit,omitempty"`
}

type evidence struct {
	PropertyID  string         `json:"property_id"`
	Tier        string         `json:"tier"`
	Seed        int64          `json:"seed"`
	Level       string         `json:"level"`
	Coverage    map[string]any `json:"coverage"`
	Assumptions []string       `json:"assumptions"`
	WallS       float64        `json:"wall_s"`
	Violations  int            `json:"violations"`
}

var staticTrusted = []string{
	"Go type checker and go/ssa builder (golang.org/x/tools v0.50.0), NaiveForm",
	"this project's VC generator (cmd/govc): heap model (typed Burstall-Bornat field arrays, element heap), loop cutting, modular calls",
	"SMT solvers z3 4.8.12, z3 5.1.0, cvc5 1.0.x: an `unsat` from any one discharges an obligation",
	"slice offsets, lengths and capacities < 2^60 (the Go runtime limits a heap object to 2^48 bytes)",
	"package-level error sentinels and lookup tables are never reassigned after initialisation (scanned over the SSA of the whole program)",
	"single-threaded execution; floats opaque; no unsafe",
	"theory int: unsigned arithmetic wraps mod 2^w exactly, signed arithmetic is proved overflow-free (obligation) and then treated as mathematical",
}

func checkMain(args []string) {
	fs := newFlagSet("check")
	repo := fs.String("repo", "/repo", "repository root")
	prop := fs.String("property", "", "property id")
	tier := fs.String("tier", "quick", "quick or thorough")
	verif := fs.String("verif", "/verif", "verification directory")
	updateLedger := fs.Bool("update-ledger", false, "rewrite the obligation ledger from this run")
	par := fs.Int("par", 10, "obligations in flight")
	verbose := fs.Bool("v", false, "verbose")
	fs.Parse(args)
	if *prop == "" {
		fmt.Fprintln(os.Stderr, "govc check: -property required")
		os.Exit(2)
	}
	seed := int64(1)
	if s := os.Getenv("VERIF_SEED"); s != "" {
		if v, err := strconv.ParseInt(s, 10, 64); err == nil {
			seed = v
		}
	}
	timeout := 10
	if *tier == "thorough" {
		timeout = 60
	}
	t0 := time.Now()
	engineFail := func(format string, a ...any) {
		fmt.Printf("ENGINE-ERROR property=%s: %s\n", *prop, fmt.Sprintf(format, a...))
		os.Exit(2)
	}
	eng, err := loadEngine(*repo, []string{"./..."})
	if err != nil {
		// A tree that no longer loads with the contract files is reported as a
		// violation of the binding obligation (contracts must bind to the code).
		replay := writeReplay(*verif, *prop, "load/contracts-bind", map[string]any{
			"obligation": "load/contracts-bind", "property": *prop, "error": err.Error(),
			"note": "the contract files no longer type-check against /repo (renamed or removed function, parameter or local named by a contract)"})
		fmt.Printf("VIOLATION property=%s replay=%s no-failing-input-found\n", *prop, replay)
		writeEvidence(*verif, evidence{PropertyID: *prop, Tier: *tier, Seed: seed, Level: "proof", WallS: time.Since(t0).Seconds(), Violations: 1,
			Coverage: map[string]any{"obligations": 1, "discharged": 0, "checker_cmd": "bin/govc check", "trusted_base": staticTrusted,
				"samples": []any{map[string]string{"obligation": "load/contracts-bind", "result": "failed", "error": err.Error()}}}})
		os.Exit(1)
	}
	var units []*Unit
	var canaries []*Unit
	for _, c := range eng.all {
		if c.kind != "func" && c.kind != "lemma" {
			continue
		}
		if c.mode == "assumed" {
			continue
		}
		if c.inline && len(c.get("ensures")) == 0 {
			continue
		}
		if contains(c.props, "CANARY") {
			canaries = append(canaries, eng.newUnit(c))
			continue
		}
		if contains(c.props, *prop) {
			units = append(units, eng.newUnit(c))
		}
	}
	if len(units) == 0 {
		engineFail("no contracts are tagged with this property")
	}
	dir, err := os.MkdirTemp("", "govc.")
	if err != nil {
		engineFail("%v", err)
	}
	defer os.RemoveAll(dir)
	var engineErrs []string
	for _, u := range append(append([]*Unit{}, units...), canaries...) {
		if u.con.mode == "bounded" {
			continue // executed only (below); no proof obligations
		}
		if err := u.run(); err != nil {
			u.err = err
			engineErrs = append(engineErrs, err.Error())
		}
	}
	// C20 is the union of the safety obligations of every function under contract:
	// bounds, nil, division, overflow, type assertions, unreachable panics, variants,
	// and the postconditions that carry representation invariants and index ranges.
	// The other obligations (functional postconditions, assertions, frames, loop
	// invariants, callee preconditions) of a function that is also tagged with
	// another *claimed* property are discharged by that property's check and are only
	// assumed here (modular reasoning); they are dropped from this run.
	skippedFunctional := 0
	if *prop == "C20" {
		claimed := claimedProperties(*verif)
		for _, u := range units {
			other := false
			for _, p := range u.con.props {
				if p != "C20" && claimed[p] {
					other = true
				}
			}
			if !other {
				continue
			}
			var keep []*Oblig
			for _, o := range u.obligs {
				functional := o.class == "post" || o.class == "assert" || o.class == "frame" || o.class == "inv-init" || o.class == "inv-preserve" || o.class == "pre"
				if functional && !o.expectFail && !(o.class == "post" && safetyLabel(o.label)) {
					skippedFunctional++
					continue
				}
				keep = append(keep, o)
			}
			u.obligs = keep
		}
	}
	which := solvers[:3]
	if *tier == "thorough" {
		which = solvers
	}
	tGen := time.Since(t0)
	dischargeAll(append(append([]*Unit{}, units...), canaries...), dir, timeout, *par, which)
	tSolve := time.Since(t0)
	if os.Getenv("GOVC_TIMING") != "" {
		fmt.Fprintf(os.Stderr, "timing: load+gen %.1fs, discharge %.1fs\n", tGen.Seconds(), (tSolve - tGen).Seconds())
	}

	// canaries: the engine must refute what is false and prove what is true
	for _, u := range canaries {
		for _, o := range u.obligs {
			if o.class != "post" {
				continue
			}
			wantFail := strings.Contains(o.label, "must-fail")
			if wantFail && o.result == "proved" {
				engineFail("canary %s was proved although it is false", o.name)
			}
			if !wantFail && o.result != "proved" {
				engineFail("canary %s was not proved although it is true (%s)", o.name, o.result)
			}
		}
	}

	// executable contracts: every contract under this property is also run against
	// the real function (bounded; validates the specifications and the engine, and
	// finds concrete failing inputs for obligations the solver cannot refute)
	budget := 5000
	if *tier == "thorough" {
		budget = 200000
	}
	var execCons []*Contract
	for _, u := range units {
		if u.con.kind == "func" {
			execCons = append(execCons, u.con)
		}
	}
	failedUnit := map[*Unit]bool{}
	for _, u := range units {
		for _, o := range u.obligs {
			if !o.expectFail && o.result != "proved" {
				failedUnit[u] = true
			}
		}
		if u.err != nil {
			failedUnit[u] = true
		}
	}
	execRes := eng.runContractTests(execCons, seed, budget, filepath.Join(dir, "exec"))
	if len(failedUnit) > 0 {
		// search harder where a proof failed
		var again []*Contract
		for u := range failedUnit {
			if r := execRes[u.con]; r != nil && r.Supported && r.Violation == "" {
				again = append(again, u.con)
			}
		}
		if len(again) > 0 {
			more := eng.runContractTests(again, seed+1, budget*20, filepath.Join(dir, "exec2"))
			for c, r := range more {
				if r.Violation != "" {
					r.Seed, r.Budget = seed+1, budget*20
					execRes[c] = r
				}
			}
		}
	}
	if os.Getenv("GOVC_TIMING") != "" {
		fmt.Fprintf(os.Stderr, "timing: bounded execution done at %.1fs\n", time.Since(t0).Seconds())
	}
	known := loadKnown(filepath.Join(*verif, "known_findings.jsonl"))
	ledgerPath := filepath.Join(*verif, "ledger", *prop+".txt")
	var names []string
	type failure struct {
		o    *Oblig
		u    *Unit
		what string
	}
	var failures []failure
	var boundedOnly []string
	total, discharged, probes := 0, 0, 0
	solverTime := 0.0
	bySolver := map[string]int{}
	var samples []any
	funcs := map[string]any{}
	assumptionsHit := map[string]int{}
	calleeModes := map[string]string{}
	knownHit := map[string]bool{}
	for _, u := range units {
		fi := map[string]any{"theory": u.m.mode.String(), "mode": "proved"}
		if u.con.mode == "bounded" {
			fi = map[string]any{"mode": "bounded (not proved): " + u.con.bounded}
			boundedOnly = append(boundedOnly, "bounded stand-in (executed, not proved): "+u.name+" - "+u.con.bounded)
			if r := execRes[u.con]; r == nil || !r.Supported || r.Executed == 0 {
				why := "not run"
				if r != nil {
					why = r.Why
				}
				engineFail("bounded contract %s was not executed (%s)", u.name, why)
			}
		}
		n, ok := 0, 0
		if u.err != nil {
			// a function the engine can no longer process is an undischarged obligation, not a pass
			o := &Oblig{name: u.name + "/engine/supported", class: "engine", result: "failed", text: "function must stay inside the verifier's subset", output: u.err.Error()}
			u.obligs = append(u.obligs, o)
		}
		for _, o := range u.obligs {
			if o.expectFail {
				probes++
				if o.result != "reachable" {
					o2 := *o
					o2.result, o2.output = "failed", "vacuity probe: `false` became provable here (contradictory invariant or precondition)"
					failures = append(failures, failure{&o2, u, "vacuous"})
				}
				continue
			}
			total++
			n++
			solverTime += o.timeS
			if o.label != "" && (o.class == "post" || o.class == "inv-init" || o.class == "inv-preserve" || o.class == "variant" || o.class == "assert") {
				names = append(names, o.name)
			}
			if o.result == "proved" {
				discharged++
				ok++
				bySolver[o.solver]++
				if len(samples) < 12 && o.label != "" && o.solver != "syntactic" {
					samples = append(samples, map[string]any{"obligation": o.name, "contract": o.text, "result": "proved", "solver": o.solver, "time_s": round3(o.timeS)})
				}
				continue
			}
			failures = append(failures, failure{o, u, o.result})
		}
		for k, v := range u.havocs {
			if strings.HasPrefix(k, "assumed postcondition") || strings.HasPrefix(k, "assumed frame") || strings.HasPrefix(k, "assumed invariant") || strings.HasPrefix(k, "assertions-only") {
				assumptionsHit[k] += v
			} else {
				assumptionsHit["havoc: "+k] += v
			}
		}
		for k, v := range u.calleesUsed {
			calleeModes[k] = v
		}
		fi["obligations"], fi["discharged"] = n, ok
		funcs[u.name] = fi
	}
	// ledger
	var ledgerMissing []string
	if *updateLedger {
		sort.Strings(names)
		os.MkdirAll(filepath.Dir(ledgerPath), 0o755)
		os.WriteFile(ledgerPath, []byte(strings.Join(names, "\n")+"\n"), 0o644)
	} else if f, err := os.Open(ledgerPath); err == nil {
		have := map[string]bool{}
		for _, n := range names {
			have[n] = true
		}
		sc := bufio.NewScanner(f)
		for sc.Scan() {
			l := strings.TrimSpace(sc.Text())
			if l != "" && !have[l] {
				ledgerMissing = append(ledgerMissing, l)
			}
		}
		f.Close()
	} else {
		engineFail("no obligation ledger %s (run with -update-ledger on the unchanged tree)", ledgerPath)
	}
	violations := 0
	var knownLines, violLines []string
	report := func(name string, o *Oblig, u *Unit, extra map[string]any) {
		if kf, ok := known[*prop+"|"+name]; ok && kf.Status == "known" {
			if !knownHit[name] {
				knownHit[name] = true
				knownLines = append(knownLines, fmt.Sprintf("KNOWN-FINDING: property=%s %s: %s", *prop, name, kf.What))
			}
			return
		}
		violations++
		rec := map[string]any{"obligation": name, "property": *prop}
		for k, v := range extra {
			rec[k] = v
		}
		suffix := " no-failing-input-found"
		if o != nil {
			rec["class"], rec["contract"], rec["result"], rec["solver_output"], rec["position"] = o.class, o.text, o.result, o.output, o.pos.String()
			if u != nil && u.err == nil && o.class != "engine" {
				if script := u.scriptFor(o); script != "" {
					rec["smt2"] = script
				}
			}
		}
		if u != nil {
			if r := execRes[u.con]; r != nil && r.Violation != "" {
				// a concrete failing input on the real code
				suffix = ""
				rec["failing_input"] = map[string]any{"violated_clause": r.Violation, "clause_text": r.Clause, "inputs": json.RawMessage(r.Inputs),
					"replay": fmt.Sprintf("bin/govc exec -func %s -seed %d -budget %d", u.name, pick(r.Seed, seed), pickInt(r.Budget, budget)), "go_test_cmd": r.Cmd}
				rec["go_test"] = r.TestSrc
			} else if r != nil && r.Supported {
				rec["falsifier"] = fmt.Sprintf("executed the contract on %d generated inputs (+%d rejected by requires) without finding a failing one", r.Executed, r.Skipped)
			} else if r != nil {
				rec["falsifier"] = "contract not executable: " + r.Why
			}
		}
		p := writeReplay(*verif, *prop, name, rec)
		violLines = append(violLines, fmt.Sprintf("VIOLATION property=%s replay=%s%s", *prop, p, suffix))
	}
	for _, f := range failures {
		report(f.o.name, f.o, f.u, nil)
	}
	// contract violated when executed although every obligation was discharged:
	// the specification or the engine is wrong — never silent
	execStats := map[string]any{}
	execTotal := 0
	for _, u := range units {
		r := execRes[u.con]
		if r == nil {
			continue
		}
		st := map[string]any{"clauses": r.Clauses, "executed": r.Executed, "rejected_by_requires": r.Skipped}
		if !r.Supported {
			st = map[string]any{"not_executable": r.Why}
		}
		execStats[u.name] = st
		execTotal += r.Executed
		if r.Violation != "" && !failedUnit[u] {
			o := &Oblig{name: u.name + "/exec/" + r.Violation, class: "exec", result: "failed", text: r.Clause,
				output: "the contract clause is violated by the real function on a generated input although its proof obligations were discharged"}
			report(o.name, o, u, nil)
		}
	}
	erred := map[string]bool{}
	for _, u := range units {
		if u.err != nil {
			erred[u.name] = true
		}
	}
	for _, n := range ledgerMissing {
		// a function the engine could not process is already reported once
		// (engine/supported); its ledger entries are not reported one by one
		if i := strings.Index(n, "/"); i > 0 && erred[n[:i]] {
			continue
		}
		report(n, nil, nil, map[string]any{"result": "missing", "note": "an obligation recorded in the ledger for the unchanged tree was not generated (contract no longer binds, loop or return site vanished)"})
	}
	// known findings that stopped failing while still listed as known: engine canary
	for k, kf := range known {
		if kf.Property == *prop && kf.Status == "known" && !knownHit[kf.Obligation] {
			_ = k
			engineFail("known finding %s no longer fails; update known_findings.jsonl (fixed entries suppress nothing)", kf.Obligation)
		}
	}
	for _, l := range knownLines {
		fmt.Println(l)
	}
	for _, l := range violLines {
		fmt.Println(l)
	}
	if len(engineErrs) > 0 && *verbose {
		for _, e := range engineErrs {
			fmt.Println("engine:", e)
		}
	}
	// evidence
	var assumed []string
	for k, v := range calleeModes {
		if v == "assumed" {
			assumed = append(assumed, "assumed library contract: "+k)
		}
	}
	sort.Strings(assumed)
	assumed = append(assumed, boundedOnly...)
	var hit []string
	for k, v := range assumptionsHit {
		hit = append(hit, fmt.Sprintf("%s (x%d)", k, v))
	}
	sort.Strings(hit)
	tb := append(append([]string{}, staticTrusted...), assumed...)
	knownObl := len(knownHit)
	cov := map[string]any{
		"obligations":              total - knownObl,
		"discharged":               discharged,
		"checker_cmd":              fmt.Sprintf("bin/govc check -property %s -tier %s (z3 5.1.0 | cvc5 | z3 4.8.12 raced per obligation, %ds timeout)", *prop, *tier, timeout),
		"trusted_base":             tb,
		"samples":                  samples,
		"functions_under_contract": funcs,
		"discharged_by_backend":    bySolver,
		"solver_time_s":            round3(solverTime),
		"vacuity_probes":           probes,
		"assumptions_hit":          hit,
		"ledger_entries":           len(names),
		"functional_obligations_left_to_other_checks": skippedFunctional,
		"ledger_missing":           ledgerMissing,
		"known_findings_reported":  knownLines,
		"bounded_contract_execution": map[string]any{"label": "bounded (not proof): the same requires/ensures text executed on the real functions", "inputs_per_function": budget, "total_executions": execTotal, "per_function": execStats},
		"callee_contract_modes":    calleeModes,
		"explanation":              "each obligation is one SMT query generated from /repo's current source (go/ssa) and the //@ contracts in zz_verif_*.go; `discharged` counts unsat answers only",
	}
	ev := evidence{PropertyID: *prop, Tier: *tier, Seed: seed, Level: "proof", Coverage: cov, WallS: round3(time.Since(t0).Seconds()), Violations: violations,
		Assumptions: append(append([]string{}, assumed...), hit...)}
	if ev.Assumptions == nil {
		ev.Assumptions = []string{}
	}
	writeEvidence(*verif, ev)
	fmt.Printf("property=%s tier=%s functions=%d obligations=%d discharged=%d known=%d violations=%d probes=%d wall=%.1fs\n",
		*prop, *tier, len(units), total, discharged, knownObl, violations, probes, time.Since(t0).Seconds())
	if violations > 0 {
		os.Exit(1)
	}
}

// safetyLabel: postconditions that carry representation invariants, index ranges
// and aliasing facts (what callers' bounds and nil obligations rest on) stay in the
// C20 run even when another check owns the function's functional obligations.
var safetyLabelRE = regexp.MustCompile(`^(inv|range|names.*|local|no-remote|spare|alias|depth|length|anchor|resume.*|.*-range|safe-.*|nonnil)(@ret\d+)?$`)

func safetyLabel(l string) bool { return safetyLabelRE.MatchString(l) }

// claimedProperties reads the property ids claimed in MANIFEST.json.
func claimedProperties(verif string) map[string]bool {
	out := map[string]bool{}
	b, err := os.ReadFile(filepath.Join(verif, "MANIFEST.json"))
	if err != nil {
		b, err = os.ReadFile("/verif/MANIFEST.json")
		if err != nil {
			return out
		}
	}
	var m struct {
		Checks []struct {
			PropertyID string `json:"property_id"`
		} `json:"checks"`
	}
	if json.Unmarshal(b, &m) == nil {
		for _, c := range m.Checks {
			out[c.PropertyID] = true
		}
	}
	return out
}

func (u *Unit) scriptFor(o *Oblig) (s string) {
	defer func() {
		if recover() != nil {
			s = ""
		}
	}()
	if o.goal == nil || o.guard == nil {
		return ""
	}
	return u.script(o, nil)
}

func pick(a, b int64) int64 {
	if a != 0 {
		return a
	}
	return b
}
func pickInt(a, b int) int {
	if a != 0 {
		return a
	}
	return b
}

func round3(f float64) float64 { return float64(int(f*1000+0.5)) / 1000 }

func loadKnown(path string) map[string]knownFinding {
	out := map[string]knownFinding{}
	f, err := os.Open(path)
	if err != nil {
		return out
	}
	defer f.Close()
	sc := bufio.NewScanner(f)
	sc.Buffer(make([]byte, 1<<20), 1<<20)
	for sc.Scan() {
		l := strings.TrimSpace(sc.Text())
		if l == "" || strings.HasPrefix(l, "#") {
			continue
		}
		var k knownFinding
		if json.Unmarshal([]byte(l), &k) == nil {
			out[k.Property+"|"+k.Obligation] = k
		}
	}
	return out
}

func writeReplay(verif, prop, name string, rec map[string]any) string {
	dir := filepath.Join(verif, "replays", prop)
	os.MkdirAll(dir, 0o755)
	p := filepath.Join(dir, sanitizeFile(name)+".json")
	b, _ := json.MarshalIndent(rec, "", " ")
	os.WriteFile(p, b, 0o644)
	return p
}

func writeEvidence(verif string, ev evidence) {
	dir := filepath.Join(verif, "evidence")
	os.MkdirAll(dir, 0o755)
	if ev.Assumptions == nil {
		ev.Assumptions = []string{}
	}
	b, _ := json.MarshalIndent(ev, "", " ")
	os.WriteFile(filepath.Join(dir, ev.PropertyID+".json"), b, 0o644)
}
