package main

// Symbolic machine state: local cells, heap arrays, pointers.

import (
	"go/token"
	"fmt"
	"go/types"
	"sort"
	"strings"

	"golang.org/x/tools/go/ssa"
)

// Val is a symbolic value: *Term, *Ptr, *FuncVal or Tuple.
type Val interface{}
type Tuple []Val
type FuncVal struct {
	fn    *ssa.Function
	binds []Val
}

// ghostCell stands for the pointee of a pointer-to-scalar parameter.
type ghostCell struct {
	name string
	typ  types.Type
}

type ptrKind int

const (
	pCell ptrKind = iota
	pHeapField
	pElem
	pGlobal
	pSeqElem
	pCond // cond ? a : b (a pointer merged at a control-flow join)
	pNil  // the nil pointer (one side of a merged pointer)
)

type pathElem struct {
	field int   // struct field index, or -1
	idx   *Term // array index (when field == -1)
}

// Ptr is an executor-level pointer to a memory location.
type Ptr struct {
	kind  ptrKind
	cell  any          // pCell: *ssa.Alloc or *ghostCell
	ref   *Term        // pHeapField: object reference
	dt    *structDT    // pHeapField
	field int          // pHeapField
	slice *Term        // pElem: slice value (ref, off, len, cap)
	idx   *Term        // pElem
	glob  *ssa.Global  // pGlobal
	cond  *Term        // pCond
	pa, pb *Ptr        // pCond
	base  types.Type   // type of the located base value (before path)
	path  []pathElem
	typ   types.Type // pointee type (after path)
}

func (p *Ptr) extend(pe pathElem, t types.Type) *Ptr {
	q := *p
	q.path = append(append([]pathElem{}, p.path...), pe)
	q.typ = t
	return &q
}

type State struct {
	guard *Term
	cells map[any]Val
	heap  map[string]*Term
	epoch int
}

func (s *State) clone() *State {
	n := &State{guard: s.guard, epoch: s.epoch, cells: make(map[any]Val, len(s.cells)), heap: make(map[string]*Term, len(s.heap))}
	for k, v := range s.cells {
		n.cells[k] = v
	}
	for k, v := range s.heap {
		n.heap[k] = v
	}
	return n
}

func (s *State) withGuard(g *Term) *State {
	n := s.clone()
	n.guard = g
	return n
}

// ------------------------------------------------------------ heap access

func (u *Unit) heapGet(st *State, key string, sort Sort) *Term {
	if old, ok := u.heapSorts[key]; ok && old != sort {
		panic(fmt.Sprintf("heap key %s used with sorts %s and %s", key, old, sort))
	}
	u.heapSorts[key] = sort
	if t, ok := st.heap[key]; ok {
		return t
	}
	return u.m.tb.Const(fmt.Sprintf("H_%s@%d", key, st.epoch), sort)
}

func (u *Unit) heapSet(st *State, key string, v *Term) {
	u.heapSorts[key] = v.sort
	st.heap[key] = v
	if key != allocHeapKey && !u.quiet {
		// every reference stored in this heap value denotes an object allocated by now
		if u.heapBorn == nil {
			u.heapBorn = map[int]*Term{}
		}
		if _, ok := u.heapBorn[v.id]; !ok {
			u.heapBorn[v.id] = u.allocSet(st)
		}
	}
}

// bornAlloc: the allocation set that was current when the heap value h was
// installed (references read from h belong to it); nil if unknown.
func (u *Unit) bornAlloc(h *Term) *Term {
	if al, ok := u.heapBorn[h.id]; ok {
		return al
	}
	if len(h.args) == 0 && h.vars == nil {
		if i := strings.LastIndexByte(h.op, '@'); i > 0 && strings.HasPrefix(h.op, "H_") {
			return u.m.tb.Const("H_"+allocHeapKey+h.op[i:], SArr(SInt, SBool))
		}
	}
	return nil
}

func (u *Unit) elemsKey(elem types.Type) (string, Sort) {
	es := u.m.sortOf(elem)
	// One element heap per machine element type: without unsafe, a []byte and a
	// []int (or []uint64, ...) can never share a backing array, so writes through
	// one cannot be seen through the other. Named types share the heap of their
	// underlying basic type (conservative).
	if b, ok := elem.Underlying().(*types.Basic); ok && b.Info()&types.IsInteger != 0 {
		name := b.Name()
		switch b.Kind() {
		case types.Uint8:
			name = "uint8"
		case types.Int32:
			name = "int32"
		}
		return "E_" + name, SArr(SInt, SArr(u.m.ixSort(), es))
	}
	return "E_" + mangleSort(es), SArr(SInt, SArr(u.m.ixSort(), es))
}

// elemsArr returns the content array of the backing store ref.
func (u *Unit) elemsArr(st *State, ref *Term, elem types.Type) *Term {
	k, s := u.elemsKey(elem)
	return u.m.tb.Select(u.heapGet(st, k, s), ref)
}
func (u *Unit) setElemsArr(st *State, ref *Term, elem types.Type, arr *Term) {
	k, s := u.elemsKey(elem)
	u.heapSet(st, k, u.m.tb.Store(u.heapGet(st, k, s), ref, arr))
}

func (u *Unit) subRef(dt *structDT, field int, ref *Term) *Term {
	name := "sub_" + dt.named + "_" + sanitize(dt.fields[field].name)
	if _, ok := u.m.ufuncs[name]; !ok {
		// embedded objects of distinct objects are distinct: sub is injective
		u.m.UF(name, SInt, SInt)
		u.m.UF(name+"_inv", SInt, SInt)
		x := u.m.tb.BoundVar("r", SInt)
		u.m.addAxiom(u.m.tb.Forall([]*Term{x}, u.m.tb.Eq(u.m.tb.App(name+"_inv", SInt, u.m.tb.App(name, SInt, x)), x)))
		// the embedded object of the nil reference is the nil reference (ghost reads
		// through nil yield zero values, see loadField)
		u.m.addAxiom(u.m.tb.Eq(u.m.tb.App(name, SInt, u.m.tb.Int(0)), u.m.tb.Int(0)))
	}
	r := u.m.tb.App(name, SInt, ref)
	if !u.quiet && !r.bound {
		tb := u.m.tb
		u.assume(tb.True(), tb.And(tb.Eq(u.isAlloc0(r), u.isAlloc0(ref)), tb.Implies(tb.Lt(tb.Int(0), ref), tb.Lt(tb.Int(0), r))))
	}
	return r
}

func isStructType(t types.Type) bool {
	_, ok := t.Underlying().(*types.Struct)
	return ok
}

// loadField reads field i of the struct object at ref.
func (u *Unit) loadField(st *State, ref *Term, dt *structDT, i int) *Term {
	f := dt.fields[i]
	if isStructType(f.typ) {
		return u.loadStruct(st, u.subRef(dt, i, ref), f.typ)
	}
	arr := u.heapGet(st, dt.heapKey(i), SArr(SInt, f.sort))
	v := u.m.tb.Select(arr, ref)
	u.assumeEntryAllocated(arr, v, f.typ)
	if !u.quiet && !v.bound && !ref.bound {
		// typing invariant of the field's Go type (ranges, slice well-formedness) and
		// memory safety: a reference stored in the heap denotes an object that was
		// allocated when this heap value was installed (or, failing that, now)
		al := u.bornAlloc(arr)
		if al == nil {
			al = u.allocSet(st)
		}
		u.assumeTypingIn(st.guard, v, f.typ, al)
		// convention for ghost reads through a nil pointer (real reads are guarded by a
		// nil obligation): the fields of the nil object read as zero values, so that a
		// frame clause such as `modifies p.f[:]` names nothing when p is nil
		if _, isLit := ref.intLit(); !isLit {
			u.assume(st.guard, u.m.tb.Implies(u.m.tb.Eq(ref, u.m.tb.Int(0)), u.m.tb.Eq(v, u.m.Zero(f.typ))))
		}
	}
	return v
}

// assumeEntryAllocated: references read from the entry heap denote objects
// that existed when the function was entered (never this function's own
// allocations).
func (u *Unit) assumeEntryAllocated(arr, v *Term, t types.Type) {
	if u.quiet || v.bound || len(arr.args) != 0 || !strings.HasSuffix(arr.op, "@0") {
		return
	}
	tb := u.m.tb
	var ref *Term
	switch tt := t.Underlying().(type) {
	case *types.Slice:
		ref = u.m.SliceRef(v)
	case *types.Pointer:
		if !isStructType(tt.Elem()) {
			return
		}
		ref = v
	case *types.Map:
		ref = v
	default:
		return
	}
	u.assume(tb.True(), tb.Or(tb.Eq(ref, tb.Int(0)), u.isAlloc0(ref)))
}

func (u *Unit) storeField(st *State, ref *Term, dt *structDT, i int, v *Term) {
	f := dt.fields[i]
	if isStructType(f.typ) {
		u.storeStruct(st, u.subRef(dt, i, ref), f.typ, v)
		return
	}
	arr := u.heapGet(st, dt.heapKey(i), SArr(SInt, f.sort))
	u.heapSet(st, dt.heapKey(i), u.m.tb.Store(arr, ref, v))
}

func (u *Unit) loadStruct(st *State, ref *Term, t types.Type) *Term {
	dt := u.m.structInfo(t)
	var args []*Term
	for i := range dt.fields {
		args = append(args, u.loadField(st, ref, dt, i))
	}
	if len(args) == 0 {
		args = append(args, u.m.tb.True())
	}
	return u.m.tb.App(dt.ctor(), dt.name, args...)
}

func (u *Unit) storeStruct(st *State, ref *Term, t types.Type, v *Term) {
	dt := u.m.structInfo(t)
	for i := range dt.fields {
		u.storeField(st, ref, dt, i, u.m.StructField(v, t, i))
	}
}

// havocStruct replaces every field of the object at ref by fresh values.
func (u *Unit) havocStruct(st *State, ref *Term, t types.Type, hint string) {
	dt := u.m.structInfo(t)
	for i, f := range dt.fields {
		if isStructType(f.typ) {
			u.havocStruct(st, u.subRef(dt, i, ref), f.typ, hint+"."+f.name)
			continue
		}
		v := u.freshOfType(hint+"."+f.name, f.typ, st.guard)
		u.storeField(st, ref, dt, i, v)
	}
}

// ------------------------------------------------------------ load / store

func (u *Unit) loadBase(st *State, p *Ptr) Val {
	switch p.kind {
	case pCell:
		v, ok := st.cells[p.cell]
		if !ok {
			panic(u.errf("read of undefined cell %v", cellName(p.cell)))
		}
		return v
	case pHeapField:
		return u.loadField(st, p.ref, p.dt, p.field)
	case pElem:
		et := p.base
		arr := u.elemsArr(st, u.m.SliceRef(p.slice), et)
		return u.m.tb.Select(arr, u.m.ElemIx(u.m.SliceOff(p.slice), p.idx))
	case pGlobal:
		return u.globalValue(p.glob)
	case pSeqElem:
		return u.m.SeqAt(p.slice, p.idx)
	case pNil:
		u.oblige("nil", "", st, u.m.tb.False(), token.NoPos, "nil dereference")
		return u.m.Zero(p.typ)
	case pCond:
		if p.pa.kind == pNil {
			u.oblige("nil", "", st, u.m.tb.Not(p.cond), token.NoPos, "nil dereference (pointer may be nil on this path)")
			return u.load(st, p.pb)
		}
		if p.pb.kind == pNil {
			u.oblige("nil", "", st, p.cond, token.NoPos, "nil dereference (pointer may be nil on this path)")
			return u.load(st, p.pa)
		}
		a, ok1 := u.load(st, p.pa).(*Term)
		b, ok2 := u.load(st, p.pb).(*Term)
		if !ok1 || !ok2 {
			panic(u.errf("load through a merged pointer to a non-term value"))
		}
		return u.m.tb.Ite(p.cond, a, b)
	}
	panic("loadBase")
}

func (u *Unit) storeBase(st *State, p *Ptr, v Val) {
	switch p.kind {
	case pCell:
		st.cells[p.cell] = v
	case pHeapField:
		u.storeField(st, p.ref, p.dt, p.field, v.(*Term))
	case pElem:
		et := p.base
		ref := u.m.SliceRef(p.slice)
		arr := u.elemsArr(st, ref, et)
		u.setElemsArr(st, ref, et, u.m.tb.Store(arr, u.m.ElemIx(u.m.SliceOff(p.slice), p.idx), v.(*Term)))
	case pGlobal:
		panic(u.errf("store to global %s is outside the subset", p.glob.Name()))
	case pNil:
		u.oblige("nil", "", st, u.m.tb.False(), token.NoPos, "nil dereference")
	case pCond:
		if p.pa.kind == pNil {
			u.oblige("nil", "", st, u.m.tb.Not(p.cond), token.NoPos, "nil dereference (pointer may be nil on this path)")
			u.store(st, p.pb, v)
			return
		}
		if p.pb.kind == pNil {
			u.oblige("nil", "", st, p.cond, token.NoPos, "nil dereference (pointer may be nil on this path)")
			u.store(st, p.pa, v)
			return
		}
		oa := u.load(st, p.pa).(*Term)
		ob := u.load(st, p.pb).(*Term)
		u.store(st, p.pa, u.m.tb.Ite(p.cond, v.(*Term), oa))
		u.store(st, p.pb, u.m.tb.Ite(p.cond, ob, v.(*Term)))
	}
}

func (u *Unit) load(st *State, p *Ptr) Val {
	v := u.loadBase(st, p)
	t := p.base
	for _, pe := range p.path {
		tv, ok := v.(*Term)
		if !ok {
			panic(u.errf("path projection on non-term value"))
		}
		if pe.field >= 0 {
			v = u.m.StructField(tv, t, pe.field)
			t = t.Underlying().(*types.Struct).Field(pe.field).Type()
		} else {
			v = u.m.tb.Select(tv, pe.idx)
			t = t.Underlying().(*types.Array).Elem()
		}
	}
	if tv, ok := v.(*Term); ok && !u.quiet {
		u.assumeTyping(st.guard, tv, p.typ, st)
	}
	return v
}

func (u *Unit) store(st *State, p *Ptr, v Val) {
	if len(p.path) == 0 {
		u.storeBase(st, p, v)
		return
	}
	base := u.loadBase(st, p).(*Term)
	vt, ok := v.(*Term)
	if !ok {
		if _, isFn := v.(*FuncVal); isFn || v == nil {
			// a closure (or nil function) stored into a struct field: an opaque function value
			vt = u.m.tb.Fresh("funcvalue_stored", SInt)
			if isFn {
				u.assume(u.m.tb.True(), u.m.tb.Lt(u.m.tb.Int(0), vt))
			} else {
				u.assume(u.m.tb.True(), u.m.tb.Eq(vt, u.m.tb.Int(0)))
			}
		} else {
			panic(u.errf("store of %T into a struct field", v))
		}
	}
	u.storeBase(st, p, u.updatePath(base, p.base, p.path, vt))
}

func (u *Unit) updatePath(base *Term, t types.Type, path []pathElem, v *Term) *Term {
	if len(path) == 0 {
		return v
	}
	pe := path[0]
	if pe.field >= 0 {
		ft := t.Underlying().(*types.Struct).Field(pe.field).Type()
		inner := u.updatePath(u.m.StructField(base, t, pe.field), ft, path[1:], v)
		return u.m.StructWith(base, t, pe.field, inner)
	}
	et := t.Underlying().(*types.Array).Elem()
	inner := u.updatePath(u.m.tb.Select(base, pe.idx), et, path[1:], v)
	return u.m.tb.Store(base, pe.idx, inner)
}

func cellName(c any) string {
	switch c := c.(type) {
	case *ssa.Alloc:
		return c.Comment + "/" + c.Name()
	case *ghostCell:
		return "*" + c.name
	}
	return fmt.Sprint(c)
}

// ------------------------------------------------------------ merging

type inEdge struct {
	st   *State
	from *ssa.BasicBlock
}

func (u *Unit) mergeStates(ins []inEdge) *State {
	tb := u.m.tb
	if len(ins) == 1 {
		return ins[0].st.clone()
	}
	var guards []*Term
	for _, e := range ins {
		guards = append(guards, e.st.guard)
	}
	out := &State{guard: tb.Or(guards...), cells: map[any]Val{}, heap: map[string]*Term{}}
	// epochs
	out.epoch = ins[0].st.epoch
	sameEpoch := true
	for _, e := range ins[1:] {
		if e.st.epoch != out.epoch {
			sameEpoch = false
		}
	}
	// cells
	keys := map[any]bool{}
	for _, e := range ins {
		for k := range e.st.cells {
			keys[k] = true
		}
	}
	var ckeys []any
	for k := range keys {
		ckeys = append(ckeys, k)
	}
	sort.Slice(ckeys, func(i, j int) bool { return cellName(ckeys[i]) < cellName(ckeys[j]) })
	for _, k := range ckeys {
		var vals []Val
		var gs []*Term
		for _, e := range ins {
			if v, ok := e.st.cells[k]; ok {
				vals = append(vals, v)
				gs = append(gs, e.st.guard)
			}
		}
		if v, ok := u.mergeVals(vals, gs); ok {
			out.cells[k] = v
		}
	}
	// heap
	hkeys := map[string]bool{}
	for _, e := range ins {
		for k := range e.st.heap {
			hkeys[k] = true
		}
	}
	if !sameEpoch {
		u.epochs++
		out.epoch = u.epochs
		for k := range u.heapSorts {
			hkeys[k] = true
		}
	}
	var hk []string
	for k := range hkeys {
		hk = append(hk, k)
	}
	sort.Strings(hk)
	for _, k := range hk {
		var vals []Val
		var gs []*Term
		for _, e := range ins {
			vals = append(vals, u.heapGet(e.st, k, u.heapSorts[k]))
			gs = append(gs, e.st.guard)
		}
		v, _ := u.mergeVals(vals, gs)
		out.heap[k] = v.(*Term)
	}
	if !u.quiet {
		// references held by a merged heap value were allocated on the branch they
		// come from, hence belong to the merged allocation set
		if u.heapBorn == nil {
			u.heapBorn = map[int]*Term{}
		}
		al := u.allocSet(out)
		for k, v := range out.heap {
			if k == allocHeapKey {
				continue
			}
			if _, ok := u.heapBorn[v.id]; !ok {
				u.heapBorn[v.id] = al
			}
		}
	}
	return out
}

func (u *Unit) mergeVals(vals []Val, gs []*Term) (Val, bool) {
	tb := u.m.tb
	if len(vals) == 0 {
		return nil, false
	}
	allSame := true
	for _, v := range vals[1:] {
		if !sameVal(v, vals[0]) {
			allSame = false
		}
	}
	if allSame {
		return vals[0], true
	}
	var p0 *Ptr
	for _, v := range vals {
		if p, ok := v.(*Ptr); ok {
			p0 = p
			break
		}
	}
	if p0 != nil {
		// pointers to different locations (or nil): a conditional pointer
		accp := (*Ptr)(nil)
		for i := len(vals) - 1; i >= 0; i-- {
			p, ok := vals[i].(*Ptr)
			if !ok && vals[i] == nil {
				p, ok = &Ptr{kind: pNil, base: p0.typ, typ: p0.typ}, true // zero value of a pointer-to-scalar local
			}
			if !ok {
				// the nil pointer constant
				if t, isTerm := vals[i].(*Term); isTerm {
					if lit, isLit := t.intLit(); isLit && lit.Sign() == 0 {
						p, ok = &Ptr{kind: pNil, base: p0.typ, typ: p0.typ}, true
					}
				}
			}
			if !ok || !types.Identical(p.typ, p0.typ) {
				return nil, false
			}
			if accp == nil {
				accp = p
			} else {
				accp = &Ptr{kind: pCond, cond: gs[i], pa: p, pb: accp, base: p.typ, typ: p.typ}
			}
		}
		return accp, true
	}
	// function values that differ (a closure on one path, a loaded function value on
	// another): the merged value is an unknown function value - calls through it are
	// calls through a function value (everything havocked)
	for _, v := range vals {
		if _, isFn := v.(*FuncVal); isFn {
			for _, w := range vals {
				switch w.(type) {
				case *FuncVal, *Term, nil:
				default:
					return nil, false
				}
			}
			f := tb.Fresh("funcvalue_merged", SInt)
			u.assume(tb.True(), tb.Le(tb.Int(0), f))
			return f, true
		}
	}
	var acc *Term
	for i := len(vals) - 1; i >= 0; i-- {
		t, ok := vals[i].(*Term)
		if !ok {
			return nil, false // executor-level values that differ cannot be merged
		}
		if acc == nil {
			acc = t
		} else {
			if acc.sort != t.sort {
				return nil, false
			}
			acc = tb.Ite(gs[i], t, acc)
		}
	}
	return acc, true
}

func sameVal(a, b Val) bool {
	switch a := a.(type) {
	case *Term:
		bt, ok := b.(*Term)
		return ok && a == bt
	case *Ptr:
		bp, ok := b.(*Ptr)
		if ok && a.kind == pCond {
			return bp.kind == pCond && a.cond == bp.cond && sameVal(a.pa, bp.pa) && sameVal(a.pb, bp.pb)
		}
		if !ok || a.kind != bp.kind || a.cell != bp.cell || a.ref != bp.ref || a.dt != bp.dt || a.field != bp.field ||
			a.slice != bp.slice || a.idx != bp.idx || a.glob != bp.glob || len(a.path) != len(bp.path) {
			return false
		}
		for i := range a.path {
			if a.path[i] != bp.path[i] {
				return false
			}
		}
		return true
	case *FuncVal:
		bf, ok := b.(*FuncVal)
		if !ok || a.fn != bf.fn || len(a.binds) != len(bf.binds) {
			return false
		}
		for i := range a.binds {
			if !sameVal(a.binds[i], bf.binds[i]) {
				return false
			}
		}
		return true
	case Tuple:
		bt, ok := b.(Tuple)
		if !ok || len(a) != len(bt) {
			return false
		}
		for i := range a {
			if !sameVal(a[i], bt[i]) {
				return false
			}
		}
		return true
	case nil:
		return b == nil
	}
	return false
}
