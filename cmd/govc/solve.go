package main

// Discharge: one SMT-LIB script per obligation, raced over the installed solvers.

import (
	"bytes"
	"context"
	"fmt"
	"os"
	"os/exec"
	"path/filepath"
	"strings"
	"sync"
	"time"
)

type solverSpec struct {
	name string
	argv func(timeoutS int, file string) []string
}

var solvers = []solverSpec{
	{"z3-5.1.0", func(t int, f string) []string { return []string{"z3-new", fmt.Sprintf("-T:%d", t), f} }},
	{"cvc5-1.0", func(t int, f string) []string {
		return []string{"cvc5", "--lang=smt2", fmt.Sprintf("--tlimit=%d", t*1000), f}
	}},
	// a second z3 5.1.0 run with another seed: quantifier-instantiation order is seed-sensitive
	{"z3-5.1.0/seed3", func(t int, f string) []string {
		return []string{"z3-new", fmt.Sprintf("-T:%d", t), "smt.random_seed=3", "sat.random_seed=3", f}
	}},
	// z3 4.8.12 rarely wins a race here (it does not terminate on many define-fun-rec goals);
	// it stays last so that the quick tier can leave it out
	{"z3-4.8.12", func(t int, f string) []string { return []string{"/usr/bin/z3", fmt.Sprintf("-T:%d", t), f} }},
}

// retrySolvers: the portfolio for the escalation round.
var retrySolvers = append(append([]solverSpec{}, solvers...),
	solverSpec{"z3-5.1.0/seed7", func(t int, f string) []string {
		return []string{"z3-new", fmt.Sprintf("-T:%d", t), "smt.random_seed=7", "sat.random_seed=7", f}
	}},
	solverSpec{"z3-5.1.0/seed11", func(t int, f string) []string {
		return []string{"z3-new", fmt.Sprintf("-T:%d", t), "smt.random_seed=11", "sat.random_seed=11", f}
	}},
)

// script builds the SMT-LIB text of an obligation.
func (u *Unit) script(o *Oblig, withModel []*Term) string {
	tb := u.m.tb
	roots := []*Term{}
	roots = append(roots, u.m.axioms...)
	roots = append(roots, u.m.ImplementsAxioms()...)
	// literals of the obligation's path condition: assumptions guarded by the
	// negation of one of them are vacuous here and left out (always sound)
	pathLits := map[int]bool{}
	for _, c := range conjuncts(o.guard) {
		pathLits[c.id] = true
	}
	for i, a := range u.assumptions[:o.nassume] {
		if len(o.without) > 0 && excluded(u.assumeTags[i], o.without) {
			continue
		}
		if a.op == "=>" && len(a.args) == 2 && deadGuard(tb, a.args[0], pathLits, 0) {
			continue
		}
		roots = append(roots, a)
	}
	roots = append(roots, o.guard)
	roots = append(roots, tb.Not(o.goal))
	// spec definitions may mention constants/axioms (string literals): make sure
	// all spec functions reachable are defined before printing
	decls, body := tb.Script(roots)
	var sb strings.Builder
	sb.WriteString("; obligation " + o.name + "\n")
	if o.text != "" {
		sb.WriteString("; " + strings.ReplaceAll(o.text, "\n", " ") + "\n")
	}
	sb.WriteString("(set-option :produce-models true)\n(set-logic ALL)\n")
	sb.WriteString(u.m.Preamble())
	// constants used only inside spec bodies (string literal arrays) need declaring too
	specs := u.SpecDefs(roots)
	extra := u.specConstDecls(decls, roots)
	sb.WriteString(decls)
	sb.WriteString(extra)
	sb.WriteString(specs)
	sb.WriteString(body)
	sb.WriteString("(check-sat)\n")
	if len(withModel) > 0 {
		sb.WriteString("(get-value (")
		for _, t := range withModel {
			sb.WriteString(" ")
			sb.WriteString(printInline(t))
		}
		sb.WriteString("))\n")
	}
	return sb.String()
}

// specConstDecls declares free constants that occur in spec bodies but not in
// the obligation roots (e.g. string literal arrays).
// deadGuard: the guard contradicts a literal of the path condition (syntactically).
func deadGuard(tb *TB, g *Term, lits map[int]bool, depth int) bool {
	if depth > 6 {
		return false
	}
	switch {
	case g.op == "and" && g.vars == nil:
		for _, c := range g.args {
			if deadGuard(tb, c, lits, depth+1) {
				return true
			}
		}
		return false
	case g.op == "or" && g.vars == nil:
		for _, c := range g.args {
			if !deadGuard(tb, c, lits, depth+1) {
				return false
			}
		}
		return true
	}
	if g.op == "not" {
		return lits[g.args[0].id]
	}
	if n, ok := tb.tab["not|Bool,"+fmt.Sprint(g.id)]; ok {
		return lits[n.id]
	}
	return false
}

func conjuncts(t *Term) []*Term {
	if t.op == "and" && t.vars == nil {
		return t.args
	}
	return []*Term{t}
}

func excluded(tag string, without []string) bool {
	if tag == "" {
		return false
	}
	for _, w := range without {
		if w == "*" {
			// everything labelled except frame facts
			return !strings.Contains(tag, "-frame")
		}
		if tag == w || strings.HasSuffix(tag, "-"+w) {
			return true
		}
	}
	return false
}

func (u *Unit) specConstDecls(already string, roots []*Term) string {
	var sb strings.Builder
	seen := map[string]bool{}
	var visit func(t *Term, formals map[string]bool, done map[int]bool)
	visit = func(t *Term, formals map[string]bool, done map[int]bool) {
		if done[t.id] {
			return
		}
		done[t.id] = true
		if len(t.args) == 0 && t.vars == nil {
			if s, ok := u.m.tb.decls[t.op]; ok && !formals[t.op] && !seen[t.op] {
				seen[t.op] = true
				line := fmt.Sprintf("(declare-const %s %s)\n", symbol(t.op), s)
				if !strings.Contains(already, line) {
					sb.WriteString(line)
				}
			}
		}
		for _, a := range t.args {
			visit(a, formals, done)
		}
	}
	for _, n := range u.specOrder {
		sd := u.specs[n]
		if sd.body == nil {
			continue
		}
		formals := map[string]bool{}
		for _, f := range sd.formals {
			formals[f.op] = true
		}
		visit(sd.body, formals, map[int]bool{})
	}
	return sb.String()
}

type solveResult struct {
	status string // unsat, sat, unknown, timeout, error
	solver string
	timeS  float64
	output string
}

func runSolver(ctx context.Context, sp solverSpec, file string, timeoutS int) solveResult {
	argv := sp.argv(timeoutS, file)
	start := time.Now()
	cctx, cancel := context.WithTimeout(ctx, time.Duration(timeoutS+2)*time.Second)
	defer cancel()
	cmd := exec.CommandContext(cctx, argv[0], argv[1:]...)
	var out bytes.Buffer
	cmd.Stdout = &out
	cmd.Stderr = &out
	_ = cmd.Run()
	el := time.Since(start).Seconds()
	txt := out.String()
	first := strings.TrimSpace(strings.SplitN(txt, "\n", 2)[0])
	st := "unknown"
	switch {
	case first == "unsat":
		st = "unsat"
	case first == "sat":
		st = "sat"
	case strings.Contains(first, "timeout") || cctx.Err() != nil:
		st = "timeout"
	case strings.HasPrefix(first, "(error") || strings.Contains(txt, "(error"):
		st = "error"
	}
	return solveResult{status: st, solver: sp.name, timeS: el, output: txt}
}

// discharge races the solvers on one obligation.
func (u *Unit) discharge(o *Oblig, text string, dir string, timeoutS int, which []solverSpec) {
	file := filepath.Join(dir, sanitizeFile(o.name)+".smt2")
	if err := os.WriteFile(file, []byte(text), 0o644); err != nil {
		o.result, o.output = "error", err.Error()
		return
	}
	if o.expectFail {
		// vacuity probe: a quick `sat`/`unknown` is the good outcome
		which = which[:1]
		if timeoutS > 3 {
			timeoutS = 3
		}
	}
	// Stage 1: most obligations are decided by one solver in well under a second;
	// trying z3 5.1.0 alone first (3 s) uses a third of the processes. Only an
	// obligation it does not prove is raced over the whole portfolio.
	if !o.expectFail && len(which) > 1 && timeoutS > 3 {
		r := runSolver(context.Background(), which[0], file, 3)
		if r.status == "unsat" {
			o.result, o.solver, o.timeS = "proved", r.solver, r.timeS
			return
		}
		if r.status == "sat" {
			o.result, o.solver, o.timeS, o.output = "failed", r.solver, r.timeS, r.output
			return
		}
	}
	ctx, cancel := context.WithCancel(context.Background())
	defer cancel()
	ch := make(chan solveResult, len(which))
	for _, sp := range which {
		go func(sp solverSpec) { ch <- runSolver(ctx, sp, file, timeoutS) }(sp)
	}
	var all []solveResult
	for range which {
		r := <-ch
		all = append(all, r)
		if r.status == "unsat" {
			o.result, o.solver, o.timeS = "proved", r.solver, r.timeS
			if o.expectFail {
				o.result = "vacuous"
			}
			return
		}
		if o.expectFail {
			o.result, o.solver, o.timeS = "reachable", r.solver, r.timeS
			return
		}
		if r.status == "sat" {
			o.result, o.solver, o.timeS, o.output = "failed", r.solver, r.timeS, r.output
			return
		}
	}
	o.result = "unknown"
	var sb strings.Builder
	for _, r := range all {
		fmt.Fprintf(&sb, "[%s %s %.1fs] %s\n", r.solver, r.status, r.timeS, firstLines(r.output, 3))
		if r.timeS > o.timeS {
			o.timeS = r.timeS
		}
	}
	o.output = sb.String()
}

func firstLines(s string, n int) string {
	ls := strings.Split(strings.TrimSpace(s), "\n")
	if len(ls) > n {
		ls = ls[:n]
	}
	return strings.Join(ls, " | ")
}

func sanitizeFile(s string) string {
	r := strings.NewReplacer("/", "__", "(", "", ")", "", "*", "", "$", "_", "#", "_", " ", "_")
	return r.Replace(s)
}

// dischargeAll runs all obligations with bounded parallelism.
func dischargeAll(units []*Unit, dir string, timeoutS int, par int, which []solverSpec) {
	type job struct {
		u    *Unit
		o    *Oblig
		text string
	}
	var jobs []job
	for _, u := range units {
		for _, o := range u.obligs {
			if o.result != "" {
				continue // discharged syntactically
			}
			jobs = append(jobs, job{u, o, u.script(o, nil)}) // sequential: the term table is not thread-safe
		}
	}
	var wg sync.WaitGroup
	sem := make(chan struct{}, par)
	for _, j := range jobs {
		wg.Add(1)
		sem <- struct{}{}
		go func(j job) {
			defer wg.Done()
			defer func() { <-sem }()
			j.u.discharge(j.o, j.text, dir, timeoutS, which)
		}(j)
	}
	wg.Wait()
	// Escalation: an obligation no solver decided inside the first time limit is
	// tried again, few at a time, with four times the limit, every installed solver
	// and extra seeds. Solver timing depends on machine load; only an obligation
	// that stays undecided here is reported. (Refuted obligations — `sat` — and
	// the must-fail canaries are not retried.)
	var again []job
	for _, j := range jobs {
		if j.o.result == "unknown" && !j.o.expectFail && !strings.Contains(j.o.label, "must-fail") {
			again = append(again, j)
		}
	}
	if len(again) == 0 || timeoutS <= 0 {
		return
	}
	par2 := par / 3
	if par2 < 2 {
		par2 = 2
	}
	sem2 := make(chan struct{}, par2)
	for _, j := range again {
		wg.Add(1)
		sem2 <- struct{}{}
		go func(j job) {
			defer wg.Done()
			defer func() { <-sem2 }()
			first := j.o.output
			j.o.timeS = 0
			j.u.discharge(j.o, j.text, dir, timeoutS*4, retrySolvers)
			if j.o.result == "unknown" {
				j.o.output = first + j.o.output
			} else {
				j.o.solver += " (retry)"
			}
		}(j)
	}
	wg.Wait()
}
