package main

// Contract files: `//@` comment blocks in zz_verif_*.go files of /repo
// (compiled only under the `verif` build tag).

import (
	"fmt"
	"go/ast"
	"go/token"
	"regexp"
	"strconv"
	"strings"

	"golang.org/x/tools/go/packages"
)

type Clause struct {
	kind  string // requires, ensures, invariant, decreases, modifies, assert
	label string
	text  string
	loop  int    // for invariant/decreases
	without []string // invariant labels whose assumed instances are dropped when proving this clause
	at    string // for kind "at": label name, or "call:NAME#K"
	callPos token.Pos
	callExtra []string
	assumeAt bool // `at call NAME#K assume E`: a stated assumption (reported), not an obligation
	retPos   token.Pos // `at return#K assert E`: position of the K-th return statement (0-based, source order)
	before   bool // `assert-before` / `assume-before`: evaluated in the state just before the call (default: at the end of its basic block)
	pos   token.Position
	// filled by the type-checking step
	expr ast.Expr
}

type Contract struct {
	kind     string // func, extern, spec, lemma
	name     string // function name as written (e.g. ParseUint, (*Flags).Set, Foo$1)
	pkg      *packages.Package
	pos      token.Position
	theory   string // "", "int", "bv"
	props    []string
	clauses  []*Clause
	inline   bool
	mode     string // proved (default), assumed
	opaque   bool   // spec functions: do not unfold the body
	externSig string // extern: "(p []byte) (r rune, size int)"
	trusted  string // reason text for assumed contracts
	nooverflow bool // int theory: treat signed overflow as wrapping-free without obligations (spec functions)
	hints    []*Clause
	split    bool // one postcondition obligation per return site
	noexec   string // reason why the contract is not executed against the real function
	bounded string // `bounded REASON`: the contract is only executed against the real function (bounded stand-in, never counted as proved)
	onlyAsserts string // `assertions-only REASON`: only the stated assertions and postconditions are obligations; the safety classes and callee preconditions of this function are assumed (reported)
	frameAssumed string // the `modifies` clause is assumed, not proved (reason); everything else is verified
	prepare  []string
	frameWithout []string
}

func (c *Contract) get(kind string) []*Clause {
	var out []*Clause
	for _, cl := range c.clauses {
		if cl.kind == kind {
			out = append(out, cl)
		}
	}
	return out
}

var externMethodRE = regexp.MustCompile(`^[\w/]+\.\(\*?\w+\)\.\w+\(`)

var labelRE = regexp.MustCompile(`^([a-zA-Z][a-zA-Z0-9_\-]*)(?:\s+without\s+([a-zA-Z0-9_,#\-]+))?:\s+(.*)$`)

// setLabel splits "label [without a,b]: expr".
func (cl *Clause) setLabel(text string) {
	if m := labelRE.FindStringSubmatch(text); m != nil {
		cl.label, cl.text = m[1], m[3]
		if m[2] != "" {
			cl.without = strings.Split(m[2], ",")
		}
	}
}

// parseContracts scans the verif files of a package.
func parseContracts(pkg *packages.Package) ([]*Contract, error) {
	var out []*Contract
	for i, f := range pkg.Syntax {
		fname := pkg.CompiledGoFiles[i]
		base := fname[strings.LastIndexByte(fname, '/')+1:]
		if !strings.HasPrefix(base, "zz_verif") {
			continue
		}
		var cur *Contract
		var last *Clause
		for _, cg := range f.Comments {
			for _, c := range cg.List {
				txt := c.Text
				if !strings.HasPrefix(txt, "//@") {
					continue
				}
				pos := pkg.Fset.Position(c.Pos())
				if strings.HasPrefix(txt, "//@+") {
					if last == nil {
						return nil, fmt.Errorf("%s: continuation without clause", pos)
					}
					last.text += " " + strings.TrimSpace(txt[4:])
					continue
				}
				body := strings.TrimSpace(txt[3:])
				if body == "" {
					continue
				}
				word, rest, _ := strings.Cut(body, " ")
				rest = strings.TrimSpace(rest)
				switch word {
				case "func", "extern", "spec", "lemma":
					cur = &Contract{kind: word, pkg: pkg, pos: pos, mode: "proved"}
					if word == "extern" {
						i := strings.IndexByte(rest, '(')
						if m := externMethodRE.FindStringIndex(rest); m != nil {
							i = m[1] - 1 // pkg.(*T).Method(...): the signature starts after the method name
						}
						if i < 0 {
							return nil, fmt.Errorf("%s: extern needs a signature", pos)
						}
						cur.name = strings.TrimSpace(rest[:i])
						cur.externSig = rest[i:]
						cur.mode = "assumed"
					} else {
						fs := strings.Fields(rest)
						if len(fs) == 0 {
							return nil, fmt.Errorf("%s: missing name", pos)
						}
						cur.name = fs[0]
						for _, o := range fs[1:] {
							switch o {
							case "opaque":
								cur.opaque = true
							default:
								return nil, fmt.Errorf("%s: unknown option %q", pos, o)
							}
						}
					}
					out = append(out, cur)
					last = nil
					continue
				}
				if cur == nil {
					return nil, fmt.Errorf("%s: clause outside a contract block", pos)
				}
				switch word {
				case "theory":
					if rest != "int" && rest != "bv" {
						return nil, fmt.Errorf("%s: theory must be int or bv", pos)
					}
					cur.theory = rest
				case "property":
					cur.props = append(cur.props, strings.Fields(rest)...)
				case "inline":
					cur.inline = true
				case "split":
					cur.split = true
				case "frame":
					// frame without a,b,c: invariant labels left out when proving frame conditions
					if strings.HasPrefix(rest, "without ") {
						cur.frameWithout = strings.Split(strings.TrimSpace(strings.TrimPrefix(rest, "without ")), ",")
					}
				case "prepare":
					// Go statement(s) run on generated inputs before the contract is executed
					// (steers the bounded input generator into the precondition; not part of the proof)
					cur.prepare = append(cur.prepare, rest)
				case "bounded":
					cur.bounded = rest
					if cur.bounded == "" {
						cur.bounded = "outside the verifier's theories"
					}
					cur.mode = "bounded"
				case "assertions-only":
					cur.onlyAsserts = rest
					if cur.onlyAsserts == "" {
						cur.onlyAsserts = "thin contract"
					}
				case "frame-assumed":
					cur.frameAssumed = rest
					if cur.frameAssumed == "" {
						cur.frameAssumed = "frame not proved"
					}
				case "noexec":
					cur.noexec = rest
					if cur.noexec == "" {
						cur.noexec = "not executable"
					}
				case "mode":
					cur.mode = rest
				case "trusted":
					cur.trusted = rest
					cur.mode = "assumed"
				case "requires", "ensures", "ensures-assumed", "modifies", "assert":
					cl := &Clause{kind: word, text: rest, pos: pos}
					if word != "modifies" {
						cl.setLabel(rest)
					}
					cur.clauses = append(cur.clauses, cl)
					last = cl
				case "at":
					// at LABEL assert [name:] EXPR — an assertion (cut point) at a labelled statement
					fs := strings.SplitN(rest, " ", 3)
					if len(fs) == 3 && fs[0] == "call" {
						// at call NAME#K assert EXPR
						gs := strings.SplitN(fs[2], " ", 2)
						before := false
						if len(gs) == 2 && strings.HasSuffix(gs[0], "-before") {
							before = true
							gs[0] = strings.TrimSuffix(gs[0], "-before")
						}
						if len(gs) != 2 || (gs[0] != "assert" && gs[0] != "assume") {
							return nil, fmt.Errorf("%s: at call NAME#K assert|assume[-before] EXPR", pos)
						}
						if gs[0] == "assume" || before {
							cl := &Clause{kind: "at", text: gs[1], at: "call:" + fs[1], pos: pos, assumeAt: gs[0] == "assume", before: before}
							cl.setLabel(cl.text)
							cur.clauses = append(cur.clauses, cl)
							last = cl
							continue
						}
						fs = []string{"call:" + fs[1], "assert", gs[1]}
					}
					if len(fs) < 3 || fs[1] != "assert" {
						return nil, fmt.Errorf("%s: at LABEL assert EXPR", pos)
					}
					cl := &Clause{kind: "at", text: fs[2], at: fs[0], pos: pos}
					cl.setLabel(cl.text)
					cur.clauses = append(cur.clauses, cl)
					last = cl
				case "loop":
					fs := strings.SplitN(rest, " ", 3)
					if len(fs) < 3 {
						return nil, fmt.Errorf("%s: loop K invariant|decreases EXPR", pos)
					}
					k, err := strconv.Atoi(fs[0])
					if err != nil {
						return nil, fmt.Errorf("%s: bad loop ordinal", pos)
					}
					if fs[1] != "invariant" && fs[1] != "decreases" && fs[1] != "hint" && fs[1] != "step" {
						return nil, fmt.Errorf("%s: loop clause must be invariant, decreases, step or hint", pos)
					}
					cl := &Clause{kind: fs[1], text: fs[2], loop: k, pos: pos}
					cl.setLabel(cl.text)
					cur.clauses = append(cur.clauses, cl)
					last = cl
				default:
					return nil, fmt.Errorf("%s: unknown clause %q", pos, word)
				}
			}
		}
	}
	return out, nil
}

// rewriteImplies turns `A ==> B` (right associative, lowest precedence within
// its parenthesised group) into implies(A, B), recursively inside parentheses,
// brackets and braces.
func rewriteImplies(s string) string {
	if !strings.Contains(s, "==>") {
		return s
	}
	// first rewrite inside every top-level bracket group
	var sb strings.Builder
	depth := 0
	inStr := byte(0)
	groupStart := -1
	for i := 0; i < len(s); i++ {
		c := s[i]
		if inStr != 0 {
			if depth == 0 {
				sb.WriteByte(c)
			}
			if c == '\\' && i+1 < len(s) {
				i++
				if depth == 0 {
					sb.WriteByte(s[i])
				}
			} else if c == inStr {
				inStr = 0
			}
			continue
		}
		switch c {
		case '"', '\'', '`':
			inStr = c
			if depth == 0 {
				sb.WriteByte(c)
			}
		case '(', '[', '{':
			if depth == 0 {
				sb.WriteByte(c)
				groupStart = i + 1
			}
			depth++
		case ')', ']', '}':
			depth--
			if depth == 0 {
				sb.WriteString(rewriteImplies(s[groupStart:i]))
				sb.WriteByte(c)
			}
		default:
			if depth == 0 {
				sb.WriteByte(c)
			}
		}
	}
	s = sb.String()
	// then the top level of this group: split at `;`-free commas? no — a single expression or
	// a comma-separated argument list / statement list; rewrite each part.
	parts := splitTopAny(s)
	for i, p := range parts {
		parts[i] = rewriteTopImplies(p)
	}
	return strings.Join(parts, "")
}

// splitTopAny splits s at top-level commas, semicolons and the keyword
// `return`, keeping the separators, so that each piece is one expression.
func splitTopAny(s string) []string {
	var out []string
	depth := 0
	inStr := byte(0)
	start := 0
	for i := 0; i < len(s); i++ {
		c := s[i]
		if inStr != 0 {
			if c == '\\' {
				i++
			} else if c == inStr {
				inStr = 0
			}
			continue
		}
		switch c {
		case '"', '\'', '`':
			inStr = c
		case '(', '[', '{':
			depth++
		case ')', ']', '}':
			depth--
		case ',', ';':
			if depth == 0 {
				out = append(out, s[start:i], string(c))
				start = i + 1
			}
		}
	}
	return append(out, s[start:])
}

func rewriteTopImplies(s string) string {
	depth := 0
	inStr := byte(0)
	for i := 0; i+2 < len(s); i++ {
		c := s[i]
		if inStr != 0 {
			if c == '\\' {
				i++
			} else if c == inStr {
				inStr = 0
			}
			continue
		}
		switch c {
		case '"', '\'', '`':
			inStr = c
		case '(', '[', '{':
			depth++
		case ')', ']', '}':
			depth--
		case '=':
			if depth == 0 && s[i+1] == '=' && s[i+2] == '>' {
				lhs := s[:i]
				prefix := ""
				// keep a leading `return ` (function literal bodies) outside the call
				if t := strings.TrimLeft(lhs, " "); strings.HasPrefix(t, "return ") {
					prefix = lhs[:len(lhs)-len(t)] + "return "
					lhs = t[len("return "):]
				}
				return prefix + "implies(" + strings.TrimSpace(lhs) + ", " + rewriteTopImplies(strings.TrimSpace(s[i+3:])) + ")"
			}
		}
	}
	return s
}
