package main

import (
	"encoding/json"
	"flag"
	"fmt"
	"os"
	"sort"
	"strings"
	"time"
)

type multiFlag []string

func (m *multiFlag) String() string     { return strings.Join(*m, ",") }
func (m *multiFlag) Set(s string) error { *m = append(*m, s); return nil }

func newFlagSet(name string) *flag.FlagSet { return flag.NewFlagSet(name, flag.ExitOnError) }

func main() {
	if len(os.Args) > 1 && os.Args[1] == "check" {
		checkMain(os.Args[2:])
		return
	}
	if len(os.Args) > 1 && os.Args[1] == "exec" {
		execMain(os.Args[2:])
		return
	}
	var funcs multiFlag
	repo := flag.String("repo", "/repo", "repository root")
	prop := flag.String("property", "", "select contracts tagged with this property")
	flag.Var(&funcs, "func", "verify only this function (pkg.Name); repeatable")
	timeout := flag.Int("timeout", 10, "per-solver timeout in seconds")
	par := flag.Int("par", 10, "obligations in flight")
	out := flag.String("out", "", "directory for SMT scripts (default: temp)")
	jsonOut := flag.String("json", "", "write results as JSON")
	verbose := flag.Bool("v", false, "verbose")
	list := flag.Bool("list", false, "list contracts and exit")
	only := flag.String("only", "", "discharge only obligations whose name contains this substring")
	flag.Parse()

	t0 := time.Now()
	eng, err := loadEngine(*repo, []string{"./..."})
	dieIf(err)
	if *verbose {
		fmt.Fprintf(os.Stderr, "loaded in %.1fs: %d functions, %d contracts\n", time.Since(t0).Seconds(), len(eng.funcs), len(eng.all))
	}
	if *list {
		for _, c := range eng.all {
			fmt.Printf("%-8s %-50s theory=%s mode=%s props=%v\n", c.kind, c.pkg.Types.Name()+"."+c.name, c.theory, c.mode, c.props)
		}
		return
	}
	var units []*Unit
	want := map[string]bool{}
	for _, f := range funcs {
		want[f] = true
	}
	for _, c := range eng.all {
		if c.kind != "func" && c.kind != "lemma" {
			continue
		}
		if c.inline && len(c.get("ensures")) == 0 {
			continue
		}
		name := c.pkg.Types.Name() + "." + c.name
		if len(want) > 0 && !want[name] {
			continue
		}
		if *prop != "" && !contains(c.props, *prop) {
			continue
		}
		if c.mode == "assumed" || c.mode == "bounded" || contains(c.props, "CANARY") {
			continue
		}
		units = append(units, eng.newUnit(c))
	}
	dir := *out
	if dir == "" {
		dir, err = os.MkdirTemp("", "govc.")
		dieIf(err)
		defer os.RemoveAll(dir)
	} else {
		dieIf(os.MkdirAll(dir, 0o755))
	}
	nerr := 0
	for _, u := range units {
		if err := u.run(); err != nil {
			fmt.Printf("ENGINE-ERROR %s: %v\n", u.name, err)
			u.err = err
			nerr++
		}
	}
	if *only != "" {
		for _, u := range units {
			var keep []*Oblig
			for _, o := range u.obligs {
				if strings.Contains(o.name, *only) {
					keep = append(keep, o)
				}
			}
			u.obligs = keep
		}
	}
	tgen := time.Since(t0)
	dischargeAll(units, dir, *timeout, *par, solvers[:3])
	res := summary{WallS: time.Since(t0).Seconds(), GenS: tgen.Seconds()}
	for _, u := range units {
		ur := unitResult{Name: u.name, Theory: u.m.mode.String(), Havocs: u.havocs, Callees: u.calleesUsed}
		if u.err != nil {
			ur.Error = u.err.Error()
		}
		for _, o := range u.obligs {
			ur.Obligs = append(ur.Obligs, obligResult{Name: o.name, Class: o.class, Result: o.result, Solver: o.solver, TimeS: o.timeS, Text: o.text, Pos: o.pos.String(), Output: o.output})
			if o.expectFail {
				res.Probes++
				if o.result != "reachable" {
					res.Vacuous++
					fmt.Printf("VACUOUS  %s: `false` is provable here (contradictory contract or engine defect)\n", o.name)
				}
				continue
			}
			res.Total++
			if o.result == "proved" {
				res.Proved++
			}
			if *verbose || o.result != "proved" {
				fmt.Printf("%-8s %-70s %-10s %.2fs  %s\n", o.result, o.name, o.solver, o.timeS, o.text)
				if o.result != "proved" && *verbose {
					fmt.Println("   ", strings.ReplaceAll(strings.TrimSpace(o.output), "\n", "\n    "))
				}
			}
		}
		res.Units = append(res.Units, ur)
	}
	sort.Slice(res.Units, func(i, j int) bool { return res.Units[i].Name < res.Units[j].Name })
	fmt.Printf("units=%d obligations=%d proved=%d probes=%d vacuous=%d engine-errors=%d gen=%.1fs wall=%.1fs\n", len(units), res.Total, res.Proved, res.Probes, res.Vacuous, nerr, tgen.Seconds(), time.Since(t0).Seconds())
	if *jsonOut != "" {
		b, _ := json.MarshalIndent(res, "", " ")
		dieIf(os.WriteFile(*jsonOut, b, 0o644))
	}
	if nerr > 0 || res.Vacuous > 0 {
		os.Exit(2)
	}
	if res.Proved != res.Total {
		os.Exit(1)
	}
}

type summary struct {
	Units  []unitResult `json:"units"`
	Total  int          `json:"total"`
	Proved int          `json:"proved"`
	Probes int          `json:"probes"`
	Vacuous int         `json:"vacuous"`
	WallS  float64      `json:"wall_s"`
	GenS   float64      `json:"gen_s"`
}
type unitResult struct {
	Name    string            `json:"name"`
	Theory  string            `json:"theory"`
	Error   string            `json:"error,omitempty"`
	Obligs  []obligResult     `json:"obligations"`
	Havocs  map[string]int    `json:"havocs,omitempty"`
	Callees map[string]string `json:"callees,omitempty"`
}
type obligResult struct {
	Name   string  `json:"name"`
	Class  string  `json:"class"`
	Result string  `json:"result"`
	Solver string  `json:"solver"`
	TimeS  float64 `json:"time_s"`
	Text   string  `json:"text"`
	Pos    string  `json:"pos"`
	Output string  `json:"output,omitempty"`
}

func contains(xs []string, x string) bool {
	for _, y := range xs {
		if y == x {
			return true
		}
	}
	return false
}

// execMain: run contracts as executable checks against the real functions.
func execMain(args []string) {
	fs := newFlagSet("exec")
	repo := fs.String("repo", "/repo", "repository root")
	prop := fs.String("property", "", "only contracts tagged with this property")
	fn := fs.String("func", "", "only this function (pkg.Name)")
	budget := fs.Int("budget", 20000, "inputs per function")
	seed := fs.Int64("seed", 1, "random seed")
	show := fs.Bool("show", false, "print the generated test")
	fs.Parse(args)
	eng, err := loadEngine(*repo, []string{"./..."})
	dieIf(err)
	dir, err := os.MkdirTemp("", "govc.exec.")
	dieIf(err)
	defer os.RemoveAll(dir)
	bad := 0
	var cons []*Contract
	for _, c := range eng.all {
		if c.kind != "func" || contains(c.props, "CANARY") {
			continue
		}
		name := c.pkg.Types.Name() + "." + c.name
		if *fn != "" && name != *fn {
			continue
		}
		if *prop != "" && !contains(c.props, *prop) {
			continue
		}
		cons = append(cons, c)
	}
	results := eng.runContractTests(cons, *seed, *budget, dir)
	for _, c := range cons {
		r := results[c]
		name := c.pkg.Types.Name() + "." + c.name
		if *show {
			fmt.Println(r.TestSrc)
		}
		switch {
		case r.Violation != "":
			bad++
			fmt.Printf("VIOLATED %-50s %s: %s inputs=%s\n", name, r.Violation, r.Clause, r.Inputs)
		case !r.Supported:
			fmt.Printf("skip     %-50s %s\n", name, firstLines(r.Why, 1))
		default:
			fmt.Printf("ok       %-50s clauses=%d executed=%d skipped=%d\n", name, r.Clauses, r.Executed, r.Skipped)
		}
	}
	if bad > 0 {
		os.Exit(1)
	}
}
